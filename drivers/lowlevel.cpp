// instantiation driver: detail::lowlevel_allocator<Functor> over an abstract low-level Functor (malloc / HeapAlloc / operator new stand-in)
#include <cstddef>
#include "detail/lowlevel_allocator.hpp"
namespace verif
{
    using namespace foonathan::memory;
    struct functor
    {
        static allocator_info info() noexcept;
        static void*          allocate(std::size_t size, std::size_t alignment) noexcept;
        static void           deallocate(void* memory, std::size_t size, std::size_t alignment) noexcept;
        static std::size_t    max_node_size() noexcept;
    };
    using ll      = detail::lowlevel_allocator<functor>;
    using checker = detail::global_leak_checker<detail::lowlevel_allocator_leak_handler<functor>>;
    void use(ll& a, void* p, std::size_t n)
    {
        a.allocate_node(n, n);
        a.deallocate_node(p, n, n);
        a.max_node_size();
        checker::counter c;
    }
} // namespace verif
