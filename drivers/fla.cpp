// instantiation driver: free_list_array<VERIF_FL, VERIF_AP> (one instantiation per unit)
#include <new>
#include "detail/free_list_array.hpp"
#include "detail/free_list.hpp"
#include "detail/small_free_list.hpp"
#include "detail/free_list_array.cpp" // bodies of log2_access_policy
namespace verif
{
    using namespace foonathan::memory::detail;
    using fla = free_list_array<VERIF_FL, VERIF_AP>;
    std::size_t use(fixed_memory_stack& s, const char* e, std::size_t n)
    {
        fla x(s, e, n);
        fla y(static_cast<fla&&>(x));
        x = static_cast<fla&&>(y);
        return x.get(n).node_size() + x.max_node_size() + x.size();
    }
} // namespace verif
