// instantiation driver (second adapter unit): wrappers over leaf types that differ from drivers/adapters.cpp in the traits they
// present -- an abstract Segregatable with independent node/array predicates, an EMPTY but stateful allocator, a stateless allocator,
// and allocators with their own propagation typedefs
#include "abstract.hpp"
#include "allocator_storage.hpp"
#include "segregator.hpp"
#include "std_allocator.hpp"
#include "threading.hpp"
namespace verif
{
    using namespace foonathan::memory;
    // abstract Segregatable: the two predicates are unrelated functions
    struct segregatable
    {
        using allocator_type = raw_alloc;
        int id;
        bool use_allocate_node(std::size_t size, std::size_t alignment) noexcept;
        bool use_allocate_array(std::size_t count, std::size_t size, std::size_t alignment) noexcept;
        allocator_type& get_allocator() noexcept;
        const allocator_type& get_allocator() const noexcept;
    };
    // empty class that is nevertheless stateful (e.g. a handle to one global arena)
    struct raw_alloc_e
    {
        using is_stateful = std::true_type;
        void* allocate_node(std::size_t size, std::size_t alignment);
        void* allocate_array(std::size_t count, std::size_t size, std::size_t alignment);
        void deallocate_node(void* p, std::size_t size, std::size_t alignment) noexcept;
        void deallocate_array(void* p, std::size_t count, std::size_t size, std::size_t alignment) noexcept;
        std::size_t max_node_size() const;
        std::size_t max_array_size() const;
        std::size_t max_alignment() const;
    };
    // stateless allocator (empty, no is_stateful typedef)
    struct raw_alloc_s
    {
        void* allocate_node(std::size_t size, std::size_t alignment);
        void* allocate_array(std::size_t count, std::size_t size, std::size_t alignment);
        void deallocate_node(void* p, std::size_t size, std::size_t alignment) noexcept;
        void deallocate_array(void* p, std::size_t count, std::size_t size, std::size_t alignment) noexcept;
        std::size_t max_node_size() const;
        std::size_t max_array_size() const;
        std::size_t max_alignment() const;
    };
    // allocators with their own propagation typedefs
    struct raw_alloc_pc : raw_alloc { using propagate_on_container_copy_assignment = std::false_type; };
    struct raw_alloc_pm : raw_alloc { using propagate_on_container_move_assignment = std::false_type; };
    struct raw_alloc_ps : raw_alloc { using propagate_on_container_swap = std::false_type; };

    using segr2    = binary_segregator<segregatable, raw_alloc2>;
    using locked_e = allocator_storage<direct_storage<raw_alloc_e>, mutex>;
    using locked_s = allocator_storage<direct_storage<raw_alloc_s>, mutex>;

    // C10 static facts, evaluated by clang from the real trait machinery: what a container sees as propagation typedefs
    template <class A> bool pocca() { return std_allocator<long, A>::propagate_on_container_copy_assignment::value; }
    template <class A> bool pocma() { return std_allocator<long, A>::propagate_on_container_move_assignment::value; }
    template <class A> bool pocs() { return std_allocator<long, A>::propagate_on_container_swap::value; }
    bool prop_plain_pocca() { return pocca<raw_alloc>(); }
    bool prop_plain_pocma() { return pocma<raw_alloc>(); }
    bool prop_plain_pocs() { return pocs<raw_alloc>(); }
    bool prop_pc_pocca() { return pocca<raw_alloc_pc>(); }
    bool prop_pc_pocma() { return pocma<raw_alloc_pc>(); }
    bool prop_pc_pocs() { return pocs<raw_alloc_pc>(); }
    bool prop_pm_pocca() { return pocca<raw_alloc_pm>(); }
    bool prop_pm_pocma() { return pocma<raw_alloc_pm>(); }
    bool prop_pm_pocs() { return pocs<raw_alloc_pm>(); }
    bool prop_ps_pocca() { return pocca<raw_alloc_ps>(); }
    bool prop_ps_pocma() { return pocma<raw_alloc_ps>(); }
    bool prop_ps_pocs() { return pocs<raw_alloc_ps>(); }
    bool trait_e_thread_safe() { return is_thread_safe_allocator<raw_alloc_e>::value; }
    bool trait_s_thread_safe() { return is_thread_safe_allocator<raw_alloc_s>::value; }
    bool trait_e_stateful() { return allocator_traits<raw_alloc_e>::is_stateful::value; }
    bool trait_s_stateful() { return allocator_traits<raw_alloc_s>::is_stateful::value; }

    void use(segr2& sg, locked_e& le, locked_s& ls, void* p, std::size_t n)
    {
        sg.allocate_node(n, n); sg.allocate_array(n, n, n); sg.deallocate_node(p, n, n); sg.deallocate_array(p, n, n, n);
        le.allocate_node(n, n); le.allocate_array(n, n, n); le.deallocate_node(p, n, n); le.deallocate_array(p, n, n, n);
        le.max_node_size(); le.max_array_size(); le.max_alignment(); { auto l = le.lock(); }
        ls.allocate_node(n, n); ls.allocate_array(n, n, n); ls.deallocate_node(p, n, n); ls.deallocate_array(p, n, n, n);
        ls.max_node_size(); { auto l = ls.lock(); }
    }
} // namespace verif
