// instantiation driver: memory_stack<verif::block_alloc>
#include "abstract.hpp"
#include "memory_stack.hpp"
namespace verif
{
    using namespace foonathan::memory;
    using stack   = memory_stack<block_alloc>;
    using traits  = allocator_traits<stack>;
    using ctraits = composable_allocator_traits<stack>;
    using unwinder = memory_stack_raii_unwind<stack>;
    void use(stack& p, stack& q, void* ptr, std::size_t n)
    {
        stack fresh(n);
        stack moved(static_cast<stack&&>(q));
        p = static_cast<stack&&>(moved);
        auto m = p.top();
        p.allocate(n, n); p.try_allocate(n, n); p.unwind(m); p.shrink_to_fit(); p.capacity_left(); p.next_capacity();
        (void)(m == m); (void)(m != m); (void)(m < m); (void)(m <= m); (void)(m > m); (void)(m >= m);
        traits::allocate_node(p, n, n); traits::allocate_array(p, n, n, n);
        traits::deallocate_node(p, ptr, n, n); traits::deallocate_array(p, ptr, n, n, n);
        traits::max_node_size(p); traits::max_array_size(p); traits::max_alignment(p);
        ctraits::try_allocate_node(p, n, n); ctraits::try_allocate_array(p, n, n, n);
        ctraits::try_deallocate_node(p, ptr, n, n); ctraits::try_deallocate_array(p, ptr, n, n, n);
        unwinder u(p); unwinder v(static_cast<unwinder&&>(u)); u = static_cast<unwinder&&>(v); u.unwind(); u.release();
        stack::min_block_size(n);
    }
} // namespace verif
