// instantiation driver: growing_block_allocator / fixed_block_allocator over an abstract RawAllocator
#include "abstract.hpp"
namespace verif
{
    using namespace foonathan::memory;
    using growing = growing_block_allocator<raw_alloc>;
    using fixedba = fixed_block_allocator<raw_alloc>;
    void use(growing& g, fixedba& f, memory_block b)
    {
        g.allocate_block(); g.deallocate_block(b); g.next_block_size();
        f.allocate_block(); f.deallocate_block(b); f.next_block_size();
    }
} // namespace verif
