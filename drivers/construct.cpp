// instantiation driver: detail::construct (smart_ptr.hpp) over an abstract element type whose constructor may throw
#include "abstract.hpp"
#include "smart_ptr.hpp"
namespace verif
{
    using namespace foonathan::memory;
    struct elem
    {
        int v;
        elem();           // may throw
        ~elem() noexcept;
    };
    void use(elem* b, elem* e)
    {
        detail::construct(std::false_type{}, b, e);
        detail::construct(std::true_type{}, b, e);
    }
} // namespace verif
