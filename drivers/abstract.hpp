// Body-less abstract leaf types for instantiation drivers. Their member functions have no
// bodies: cxx2c declares them with the contracts given in the sidecar (assumed contracts).
#pragma once
#include <cstddef>
#include "memory_arena.hpp"
namespace verif
{
    // abstract BlockAllocator
    struct block_alloc
    {
        int id;
        explicit block_alloc(std::size_t block_size) noexcept;
        foonathan::memory::memory_block allocate_block();
        void deallocate_block(foonathan::memory::memory_block block) noexcept;
        std::size_t next_block_size() const noexcept;
    };
    // abstract stateful RawAllocator
    struct raw_alloc
    {
        using is_stateful = std::true_type;
        int id;
        void* allocate_node(std::size_t size, std::size_t alignment);
        void* allocate_array(std::size_t count, std::size_t size, std::size_t alignment);
        void deallocate_node(void* p, std::size_t size, std::size_t alignment) noexcept;
        void deallocate_array(void* p, std::size_t count, std::size_t size, std::size_t alignment) noexcept;
        std::size_t max_node_size() const;
        std::size_t max_array_size() const;
        std::size_t max_alignment() const;
        // composable interface
        void* try_allocate_node(std::size_t size, std::size_t alignment) noexcept;
        void* try_allocate_array(std::size_t count, std::size_t size, std::size_t alignment) noexcept;
        bool try_deallocate_node(void* p, std::size_t size, std::size_t alignment) noexcept;
        bool try_deallocate_array(void* p, std::size_t count, std::size_t size, std::size_t alignment) noexcept;
    };
    // a second, distinct abstract allocator type (fallback / segregator partner)
    struct raw_alloc2
    {
        using is_stateful = std::true_type;
        int id;
        void* allocate_node(std::size_t size, std::size_t alignment);
        void* allocate_array(std::size_t count, std::size_t size, std::size_t alignment);
        void deallocate_node(void* p, std::size_t size, std::size_t alignment) noexcept;
        void deallocate_array(void* p, std::size_t count, std::size_t size, std::size_t alignment) noexcept;
        std::size_t max_node_size() const;
        std::size_t max_array_size() const;
        std::size_t max_alignment() const;
        void* try_allocate_node(std::size_t size, std::size_t alignment) noexcept;
        void* try_allocate_array(std::size_t count, std::size_t size, std::size_t alignment) noexcept;
        bool try_deallocate_node(void* p, std::size_t size, std::size_t alignment) noexcept;
        bool try_deallocate_array(void* p, std::size_t count, std::size_t size, std::size_t alignment) noexcept;
    };
    // abstract BasicLockable
    struct mutex
    {
        int id;
        void lock();
        void unlock() noexcept;
    };
    // abstract tracker
    struct tracker
    {
        int id;
        void on_node_allocation(void* mem, std::size_t size, std::size_t alignment) noexcept;
        void on_array_allocation(void* mem, std::size_t count, std::size_t size, std::size_t alignment) noexcept;
        void on_node_deallocation(void* ptr, std::size_t size, std::size_t alignment) noexcept;
        void on_array_deallocation(void* ptr, std::size_t count, std::size_t size, std::size_t alignment) noexcept;
    };
} // namespace verif
