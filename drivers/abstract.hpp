// Body-less abstract leaf types for instantiation drivers. Their member functions have no
// bodies: cxx2c declares them with the contracts given in the sidecar (assumed contracts).
#pragma once
#include <cstddef>
#include "memory_arena.hpp"
namespace verif
{
    // abstract BlockAllocator
    struct block_alloc
    {
        int id;
        explicit block_alloc(std::size_t block_size) noexcept;
        foonathan::memory::memory_block allocate_block();
        void deallocate_block(foonathan::memory::memory_block block) noexcept;
        std::size_t next_block_size() const noexcept;
    };
    // abstract stateful RawAllocator
    struct raw_alloc
    {
        using is_stateful = std::true_type;
        int id;
        void* allocate_node(std::size_t size, std::size_t alignment);
        void* allocate_array(std::size_t count, std::size_t size, std::size_t alignment);
        void deallocate_node(void* p, std::size_t size, std::size_t alignment) noexcept;
        void deallocate_array(void* p, std::size_t count, std::size_t size, std::size_t alignment) noexcept;
        std::size_t max_node_size() const;
        std::size_t max_array_size() const;
        std::size_t max_alignment() const;
    };
} // namespace verif
