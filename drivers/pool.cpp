// instantiation driver: memory_pool<VERIF_POOL, verif::block_alloc>
#include "abstract.hpp"
#include "memory_pool.hpp"
namespace verif
{
    using namespace foonathan::memory;
    using pool   = memory_pool<VERIF_POOL, block_alloc>;
    using traits = allocator_traits<pool>;
    using ctraits = composable_allocator_traits<pool>;
    void use(pool& p, pool& q, void* ptr, std::size_t n)
    {
        pool fresh(n, n);
        pool moved(static_cast<pool&&>(q));
        p = static_cast<pool&&>(moved);
        traits::allocate_node(p, n, n);
        traits::allocate_array(p, n, n, n);
        traits::deallocate_node(p, ptr, n, n);
        traits::deallocate_array(p, ptr, n, n, n);
        traits::max_node_size(p); traits::max_array_size(p); traits::max_alignment(p);
        ctraits::try_allocate_node(p, n, n);
        ctraits::try_allocate_array(p, n, n, n);
        ctraits::try_deallocate_node(p, ptr, n, n);
        ctraits::try_deallocate_array(p, ptr, n, n, n);
        p.allocate_array(n); p.try_allocate_array(n); p.deallocate_array(ptr, n); p.try_deallocate_array(ptr, n);
        p.capacity_left(); p.next_capacity(); p.owns(ptr); pool::min_block_size(n, n);
    }
} // namespace verif
