// instantiation driver: iteration_allocator<VERIF_N, verif::block_alloc>
#include "abstract.hpp"
#include "iteration_allocator.hpp"
namespace verif
{
    using namespace foonathan::memory;
    using iter    = iteration_allocator<VERIF_N, block_alloc>;
    using traits  = allocator_traits<iter>;
    using ctraits = composable_allocator_traits<iter>;
    void use(iter& p, iter& q, void* ptr, std::size_t n)
    {
        iter fresh(n);
        iter moved(static_cast<iter&&>(q));
        p = static_cast<iter&&>(moved);
        p.allocate(n, n); p.try_allocate(n, n); p.next_iteration(); p.capacity_left(n); p.capacity_left();
        traits::allocate_node(p, n, n); traits::allocate_array(p, n, n, n);
        traits::max_node_size(p);
        ctraits::try_allocate_node(p, n, n); ctraits::try_allocate_array(p, n, n, n);
        ctraits::try_deallocate_node(p, ptr, n, n); ctraits::try_deallocate_array(p, ptr, n, n, n);
    }
} // namespace verif
