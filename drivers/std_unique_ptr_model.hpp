// MODEL of std::unique_ptr (ISO C++ [unique.ptr.single] / [unique.ptr.runtime]) for the instantiation drivers that put
// code USING std::unique_ptr under contract (smart_ptr.hpp: allocate_unique / allocate_array_unique).
// libstdc++'s own unique_ptr stores (pointer, deleter) in a std::tuple with empty-base compression, which the C extractor
// does not reach; the library under verification only relies on the standard's semantics, so those are written out here:
//   * the destructor calls get_deleter()(get()) iff get() != nullptr            [unique.ptr.single.dtor]
//   * release() returns the stored pointer and stores nullptr, deleter untouched  [unique.ptr.single.modifiers]
//   * (p, d) constructors store p and a copy / move of d, and do not throw        [unique.ptr.single.ctor]
//   * move construction transfers pointer and deleter and leaves the source null
// This file is a TRUSTED ASSUMPTION about a dependency (listed as such in the evidence); it replaces <bits/unique_ptr.h>
// by defining its include guard. Nothing of foonathan/memory is modelled here.
#pragma once
#include <cstddef>
#include <type_traits>
#include <utility>
#define _UNIQUE_PTR_H 1
#define _BACKWARD_AUTO_PTR_H 1 // (defines a unique_ptr constructor out of line; std::auto_ptr is only declared)
namespace std
{
    template <typename T>
    class auto_ptr;
    template <typename T>
    struct default_delete
    {
        constexpr default_delete() noexcept = default;
        template <typename U, typename = typename enable_if<is_convertible<U*, T*>::value>::type>
        default_delete(const default_delete<U>&) noexcept {}
        void operator()(T* ptr) const { delete ptr; }
    };
    template <typename T>
    struct default_delete<T[]>
    {
        constexpr default_delete() noexcept = default;
        void operator()(T* ptr) const { delete[] ptr; }
    };

    template <typename T, typename D = default_delete<T>>
    class unique_ptr
    {
    public:
        using pointer      = T*;
        using element_type = T;
        using deleter_type = D;

        constexpr unique_ptr() noexcept : ptr_(nullptr), del_() {}
        constexpr unique_ptr(nullptr_t) noexcept : ptr_(nullptr), del_() {}
        explicit unique_ptr(pointer p) noexcept : ptr_(p), del_() {}
        unique_ptr(pointer p, const D& d) noexcept : ptr_(p), del_(d) {}
        unique_ptr(pointer p, D&& d) noexcept : ptr_(p), del_(static_cast<D&&>(d)) {}
        unique_ptr(unique_ptr&& other) noexcept : ptr_(other.release()), del_(static_cast<D&&>(other.del_)) {}
        template <typename U, typename E,
                  typename = typename enable_if<is_convertible<typename unique_ptr<U, E>::pointer, pointer>::value
                                                && !is_array<U>::value && is_convertible<E, D>::value>::type>
        unique_ptr(unique_ptr<U, E>&& other) noexcept
        : ptr_(other.release()), del_(static_cast<E&&>(other.get_deleter()))
        {
        }
        unique_ptr(const unique_ptr&)            = delete;
        unique_ptr& operator=(const unique_ptr&) = delete;

        ~unique_ptr() noexcept
        {
            if (ptr_ != nullptr)
                del_(ptr_);
            ptr_ = nullptr;
        }

        unique_ptr& operator=(unique_ptr&& other) noexcept
        {
            reset(other.release());
            del_ = static_cast<D&&>(other.del_);
            return *this;
        }

        typename add_lvalue_reference<T>::type operator*() const { return *ptr_; }
        pointer  operator->() const noexcept { return ptr_; }
        pointer  get() const noexcept { return ptr_; }
        D&       get_deleter() noexcept { return del_; }
        const D& get_deleter() const noexcept { return del_; }
        explicit operator bool() const noexcept { return ptr_ != nullptr; }

        pointer release() noexcept
        {
            pointer p = ptr_;
            ptr_      = nullptr;
            return p;
        }
        void reset(pointer p = pointer()) noexcept
        {
            pointer old = ptr_;
            ptr_        = p;
            if (old != nullptr)
                del_(old);
        }
        void swap(unique_ptr& other) noexcept
        {
            pointer p  = ptr_;
            ptr_       = other.ptr_;
            other.ptr_ = p;
            D d(static_cast<D&&>(del_));
            del_       = static_cast<D&&>(other.del_);
            other.del_ = static_cast<D&&>(d);
        }

    private:
        pointer ptr_;
        D       del_;
    };

    template <typename T, typename D>
    class unique_ptr<T[], D>
    {
    public:
        using pointer      = T*;
        using element_type = T;
        using deleter_type = D;

        constexpr unique_ptr() noexcept : ptr_(nullptr), del_() {}
        constexpr unique_ptr(nullptr_t) noexcept : ptr_(nullptr), del_() {}
        explicit unique_ptr(pointer p) noexcept : ptr_(p), del_() {}
        unique_ptr(pointer p, const D& d) noexcept : ptr_(p), del_(d) {}
        unique_ptr(pointer p, D&& d) noexcept : ptr_(p), del_(static_cast<D&&>(d)) {}
        unique_ptr(unique_ptr&& other) noexcept : ptr_(other.release()), del_(static_cast<D&&>(other.del_)) {}
        unique_ptr(const unique_ptr&)            = delete;
        unique_ptr& operator=(const unique_ptr&) = delete;

        ~unique_ptr() noexcept
        {
            if (ptr_ != nullptr)
                del_(ptr_);
            ptr_ = nullptr;
        }

        unique_ptr& operator=(unique_ptr&& other) noexcept
        {
            reset(other.release());
            del_ = static_cast<D&&>(other.del_);
            return *this;
        }

        T&       operator[](size_t i) const { return ptr_[i]; }
        pointer  get() const noexcept { return ptr_; }
        D&       get_deleter() noexcept { return del_; }
        const D& get_deleter() const noexcept { return del_; }
        explicit operator bool() const noexcept { return ptr_ != nullptr; }

        pointer release() noexcept
        {
            pointer p = ptr_;
            ptr_      = nullptr;
            return p;
        }
        void reset(pointer p = pointer()) noexcept
        {
            pointer old = ptr_;
            ptr_        = p;
            if (old != nullptr)
                del_(old);
        }

    private:
        pointer ptr_;
        D       del_;
    };

    template <typename T, typename D>
    bool operator==(const unique_ptr<T, D>& a, nullptr_t) noexcept { return !a; }
    template <typename T, typename D>
    bool operator!=(const unique_ptr<T, D>& a, nullptr_t) noexcept { return bool(a); }
} // namespace std
