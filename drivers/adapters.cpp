// instantiation driver: wrappers and storage classes over abstract leaf allocators
#include "abstract.hpp"
#include "aligned_allocator.hpp"
#include "allocator_storage.hpp"
#include "fallback_allocator.hpp"
#include "segregator.hpp"
#include "tracking.hpp"
#include "std_allocator.hpp"
#include "deleter.hpp"
namespace verif
{
    using namespace foonathan::memory;
    using aligned  = aligned_allocator<raw_alloc>;
    using tracked  = tracked_allocator<tracker, raw_alloc>;
    using segr     = binary_segregator<threshold_segregatable<raw_alloc>, raw_alloc2>;
    using fallback = fallback_allocator<raw_alloc, raw_alloc2>;
    using locked   = allocator_storage<direct_storage<raw_alloc>, mutex>;
    using refst    = allocator_storage<reference_storage<raw_alloc>, no_mutex>;
    using stdalloc = std_allocator<long, raw_alloc>;
    using stdalloc2 = std_allocator<char, raw_alloc>;
    template <class A>
    void use_raw(A& a, void* p, std::size_t n)
    {
        a.allocate_node(n, n); a.allocate_array(n, n, n); a.deallocate_node(p, n, n); a.deallocate_array(p, n, n, n);
        a.max_node_size(); a.max_array_size(); a.max_alignment();
    }
    template <class A>
    void use_comp(A& a, void* p, std::size_t n)
    {
        a.try_allocate_node(n, n); a.try_allocate_array(n, n, n); a.try_deallocate_node(p, n, n); a.try_deallocate_array(p, n, n, n);
    }
    void use(aligned& al, tracked& tr, segr& sg, fallback& fb, locked& lk, refst& rs, stdalloc& sa, stdalloc& sb, void* p, std::size_t n, raw_alloc& ra)
    {
        use_raw(al, p, n); use_comp(al, p, n); { aligned al2(static_cast<aligned&&>(al)); al = static_cast<aligned&&>(al2); }
        use_raw(tr, p, n); use_comp(tr, p, n);
        sg.allocate_node(n, n); sg.allocate_array(n, n, n); sg.deallocate_node(p, n, n); sg.deallocate_array(p, n, n, n); sg.max_node_size(); sg.max_array_size();
        use_raw(fb, p, n); use_comp(fb, p, n);
        use_raw(lk, p, n); use_comp(lk, p, n); { auto l = lk.lock(); l->allocate_node(n, n); auto l2 = std::move(l); }
        use_raw(rs, p, n); use_comp(rs, p, n);
        long* q = sa.allocate(n); sa.deallocate(q, n); (void)(sa == sb); (void)(sa != sb);
        stdalloc2 conv(sa); stdalloc sel = sa.select_on_container_copy_construction(); sa.get_allocator();
        stdalloc made(ra);
        allocator_deallocator<long, raw_alloc> d1{allocator_reference<raw_alloc>(ra)}; d1(q);
        allocator_deallocator<int[], raw_alloc> d2{allocator_reference<raw_alloc>(ra), n}; d2((int*)p);
    }
} // namespace verif
