// instantiation driver: smart_ptr.hpp allocate_unique / allocate_array_unique over an abstract allocator and an element type
// whose constructor may throw; std::unique_ptr is the MODEL of drivers/std_unique_ptr_model.hpp (see there)
#include "std_unique_ptr_model.hpp"
#include "abstract.hpp"
#include "smart_ptr.hpp"
namespace verif
{
    using namespace foonathan::memory;
    struct uobj
    {
        int v;
        explicit uobj(int x); // may throw
        ~uobj() noexcept;
    };
    struct uelem
    {
        int v;
        uelem(); // may throw
        ~uelem() noexcept;
    };
    // create and let go: the unique_ptr's destructor runs the deleter at the end of the scope
    void roundtrip(raw_alloc& a, int x)
    {
        auto p = allocate_unique<uobj>(a, x);
    }
    void roundtrip_array(raw_alloc& a, std::size_t n)
    {
        auto q = allocate_unique<uelem[]>(a, n);
    }
    void use(raw_alloc& a, int x, std::size_t n)
    {
        roundtrip(a, x);
        roundtrip_array(a, n);
    }
} // namespace verif
