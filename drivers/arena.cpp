// instantiation driver: memory_arena<verif::block_alloc, VERIF_CACHED>
#include "abstract.hpp"
#ifdef VERIF_WITH_BODIES
#include <new>
#include "memory_arena.cpp" // bodies of memory_block_stack
#endif
namespace verif
{
    using namespace foonathan::memory;
    using arena = memory_arena<block_alloc, VERIF_CACHED>;
    void use(arena& a, arena& b, const void* p, std::size_t n)
    {
        arena fresh(n);
        arena moved(static_cast<arena&&>(b));
        a = static_cast<arena&&>(moved);
        a.allocate_block(); a.current_block(); a.deallocate_block(); a.owns(p); a.shrink_to_fit();
        a.capacity(); a.cache_size(); a.size(); a.next_block_size(); arena::min_block_size(n);
    }
} // namespace verif
