// instantiation driver: the type-erased path -- std_allocator<T, any_allocator> (any_std_allocator<T>) over reference_storage<any_allocator>,
// and the implementation class basic_allocator<RawAllocator> that sits behind the virtual interface
#include "abstract.hpp"
#include "std_allocator.hpp"
namespace verif
{
    using namespace foonathan::memory;
    using astd = std_allocator<long, any_allocator>;
    void use(astd& a, raw_alloc& r, long* p, std::size_t n)
    {
        p = a.allocate(n);
        a.deallocate(p, n);
        any_allocator_reference ref(r);
        void* q = ref.allocate_node(n, n);
        ref.deallocate_node(q, n, n);
        q = ref.allocate_array(n, n, n);
        ref.deallocate_array(q, n, n, n);
        astd b(r);
        p = b.allocate(n);
        b.deallocate(p, n);
    }
} // namespace verif
