// instantiation driver: joint_allocator.hpp over an abstract upstream allocator and a joint type with a throwing constructor
// (std::unique_ptr, should the code under contract come to use it, is the standard-semantics MODEL of std_unique_ptr_model.hpp)
#include "std_unique_ptr_model.hpp"
#include "abstract.hpp"
#include "joint_allocator.hpp"
namespace verif
{
    using namespace foonathan::memory;
    void may_throw();                     // abstract: throws or returns
    void on_destroy(void* obj) noexcept;  // abstract: logs the destruction
    struct jobj : joint_type<jobj>
    {
        long payload;
        jobj(joint j) : joint_type<jobj>(j), payload(0) { may_throw(); }
        jobj(joint j, const jobj& other) : joint_type<jobj>(j), payload(other.payload) { may_throw(); }
        ~jobj() noexcept { on_destroy(this); }
    };
    struct jelem
    {
        int v;
        jelem();           // may throw
        jelem(const jelem&);
        ~jelem() noexcept;
    };
    using jptr = joint_ptr<jobj, raw_alloc>;
    void use(raw_alloc& a, jobj& o, void* p, std::size_t n)
    {
        jptr j(a, joint_size(n));
        j.reset();
        jptr k(static_cast<jptr&&>(j));
        k = static_cast<jptr&&>(j);
        swap(j, k);
        auto c = clone_joint(a, o);
        joint_allocator ja(o);
        ja.allocate_node(n, n);
        ja.deallocate_node(p, n, n);
        joint_array<jelem> arr(n, o);
        joint_array<jelem> arr2(n, arr[0], o);
        joint_array<jelem> arr3(arr, o);
        const jelem* cb = &arr[0];
        joint_array<jelem> arr4(cb, cb + n, o);
    }
} // namespace verif
