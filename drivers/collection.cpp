// instantiation driver: memory_pool_collection<VERIF_POOL, VERIF_BUCKETS, verif::block_alloc>
#include "abstract.hpp"
#include "memory_pool_collection.hpp"
namespace verif
{
    using namespace foonathan::memory;
    using coll    = memory_pool_collection<VERIF_POOL, VERIF_BUCKETS, block_alloc>;
    using traits  = allocator_traits<coll>;
    using ctraits = composable_allocator_traits<coll>;
    void use(coll& p, coll& q, void* ptr, std::size_t n)
    {
        coll fresh(n, n);
        coll moved(static_cast<coll&&>(q));
        p = static_cast<coll&&>(moved);
        p.allocate_node(n); p.try_allocate_node(n); p.allocate_array(n, n); p.try_allocate_array(n, n);
        p.deallocate_node(ptr, n); p.try_deallocate_node(ptr, n); p.deallocate_array(ptr, n, n); p.try_deallocate_array(ptr, n, n);
        p.reserve(n, n); p.max_node_size(); p.pool_capacity_left(n); p.capacity_left(); p.next_capacity();
        traits::allocate_node(p, n, n); traits::allocate_array(p, n, n, n);
        traits::deallocate_node(p, ptr, n, n); traits::deallocate_array(p, ptr, n, n, n);
        traits::max_node_size(p); traits::max_array_size(p); traits::max_alignment(p);
        ctraits::try_allocate_node(p, n, n); ctraits::try_allocate_array(p, n, n, n);
        ctraits::try_deallocate_node(p, ptr, n, n); ctraits::try_deallocate_array(p, ptr, n, n, n);
    }
} // namespace verif
