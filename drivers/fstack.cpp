// driver: detail::fixed_memory_stack (header-only class)
#include "detail/memory_stack.hpp"
#include "debugging.hpp"
namespace verif
{
    using namespace foonathan::memory::detail;
    void* use(fixed_memory_stack& s, const char* end, std::size_t n, char* top)
    {
        fixed_memory_stack a(top), b(static_cast<fixed_memory_stack&&>(a));
        a = static_cast<fixed_memory_stack&&>(b);
        s.unwind(top);
        s.bump(n);
        s.bump_return(n);
        (void)s.top();
        return s.allocate(end, n, n);
    }
} // namespace verif
