// Native replay support for the adapter groups (units adapters / adapters2): recording leaf allocators, a recording mutex, and a scenario suite
// that drives the REAL wrappers and compares every leaf call with the request that caused it. It decides nothing; it turns a failed forwarding /
// locking obligation into a failing scenario where one exists.
#pragma once
#include <vector>
#include <mutex>
#include "aligned_allocator.hpp"
#include "allocator_storage.hpp"
#include "fallback_allocator.hpp"
#include "segregator.hpp"
#include "tracking.hpp"
#include "std_allocator.hpp"
#include "threading.hpp"
namespace rp
{
    using namespace foonathan::memory;
    struct call { int kind; std::size_t count, size, alignment; void* p; const void* self; };
    static int held = 0, locks = 0, unlocks = 0, unlocked_access = 0, bad_unlock = 0;
    struct rec_mutex { void lock() { ++locks; ++held; } void unlock() noexcept { ++unlocks; if (held <= 0) ++bad_unlock; --held; } };
    // stateful recording allocator; `need_lock` makes every access check that the mutex is held
    template <int Tag, bool Empty = false>
    struct rec_alloc_base
    {
        using is_stateful = std::true_type;
        static std::vector<call>& log() { static std::vector<call> l; return l; }
        static bool& need_lock() { static bool b = false; return b; }
        static bool& owns_all() { static bool b = true; return b; }
        void touch() const { if (need_lock() && held <= 0) ++unlocked_access; }
        void* allocate_node(std::size_t s, std::size_t a) { touch(); void* p = std::aligned_alloc(64, (s + 63) / 64 * 64 + 64); log().push_back({1, 1, s, a, p, this}); return p; }
        void* allocate_array(std::size_t c, std::size_t s, std::size_t a) { touch(); void* p = std::aligned_alloc(64, (c * s + 63) / 64 * 64 + 64); log().push_back({2, c, s, a, p, this}); return p; }
        void deallocate_node(void* p, std::size_t s, std::size_t a) noexcept { touch(); log().push_back({3, 1, s, a, p, this}); std::free(p); }
        void deallocate_array(void* p, std::size_t c, std::size_t s, std::size_t a) noexcept { touch(); log().push_back({4, c, s, a, p, this}); std::free(p); }
        std::size_t max_node_size() const { touch(); return std::size_t(-1) / 4; }
        std::size_t max_array_size() const { touch(); return std::size_t(-1) / 4; }
        std::size_t max_alignment() const { touch(); return 64; }
        void* try_allocate_node(std::size_t s, std::size_t a) noexcept { return owns_all() ? allocate_node(s, a) : nullptr; }
        void* try_allocate_array(std::size_t c, std::size_t s, std::size_t a) noexcept { return owns_all() ? allocate_array(c, s, a) : nullptr; }
        bool try_deallocate_node(void* p, std::size_t s, std::size_t a) noexcept { for (auto& c : log()) if (c.p == p && c.kind <= 2) { deallocate_node(p, s, a); return true; } return false; }
        bool try_deallocate_array(void* p, std::size_t c, std::size_t s, std::size_t a) noexcept { for (auto& x : log()) if (x.p == p && x.kind <= 2) { deallocate_array(p, c, s, a); return true; } return false; }
    };
    template <int Tag> struct rec_alloc : rec_alloc_base<Tag> { int id = Tag; };
    template <int Tag> struct rec_alloc_empty : rec_alloc_base<Tag, true> {};    // EMPTY class, yet stateful
    static int bad = 0;
    static void expect(bool ok, const char* what) { if (!ok) { std::printf("adapter scenario failed: %s\n", what); ++bad; } }
    template <class L> static call last() { return L::log().empty() ? call{0, 0, 0, 0, nullptr, nullptr} : L::log().back(); }
    // allocate through `a`, release through `b` (same object unless a move is being checked); every leaf call must mirror the request
    template <class Leaf, class A, class B> static void round_trip(A& a, B& b, std::size_t min_align, const char* name)
    {
        for (std::size_t align : {std::size_t(1), std::size_t(8), std::size_t(32)})
        {
            std::size_t n0 = Leaf::log().size();
            void* p = a.allocate_node(24, align); call c = last<Leaf>();
            expect(Leaf::log().size() == n0 + 1 && c.kind == 1 && c.size >= 24 && c.alignment >= align && c.alignment >= min_align && c.p == p, name);
            b.deallocate_node(p, 24, align); call d = last<Leaf>();
            expect(Leaf::log().size() == n0 + 2 && d.kind == 3 && d.size == c.size && d.alignment == c.alignment && d.p == p && d.self == c.self, name);
            void* q = a.allocate_array(5, 12, align); c = last<Leaf>();
            expect(c.kind == 2 && c.count * c.size >= 60 && c.alignment >= align && c.p == q, name);
            b.deallocate_array(q, 5, 12, align); d = last<Leaf>();
            expect(d.kind == 4 && d.count == c.count && d.size == c.size && d.alignment == c.alignment && d.p == q && d.self == c.self, name);
        }
    }
    // a Segregatable whose node and array predicates differ
    struct odd_segregatable
    {
        using allocator_type = rec_alloc<1>; rec_alloc<1> alloc;
        bool use_allocate_node(std::size_t s, std::size_t) noexcept { return s <= 32; }
        bool use_allocate_array(std::size_t, std::size_t, std::size_t) noexcept { return false; }
        allocator_type& get_allocator() noexcept { return alloc; }
        const allocator_type& get_allocator() const noexcept { return alloc; }
    };
    static int run_suite()
    {
        using L1 = rec_alloc<1>; using L2 = rec_alloc<2>;
        { aligned_allocator<L1> al(16, L1{}); round_trip<L1>(al, al, 16, "aligned_allocator forwards max(min_alignment, alignment) and releases with it");
          aligned_allocator<L1> small(8, L1{}), big(64, L1{}); void* p = small.allocate_node(32, 8); call c = last<L1>(); big = std::move(small); big.deallocate_node(p, 32, 8); call d = last<L1>();
          expect(d.kind == 3 && d.alignment == c.alignment, "aligned_allocator: after move assignment the block is released with the alignment of its allocation"); }
        { L1 leaf; allocator_reference<L1> ref(leaf); round_trip<L1>(ref, ref, 1, "allocator_reference forwards unchanged"); }
        { tracked_allocator<struct trk, L1>* dummy = nullptr; (void)dummy; }
        { binary_segregator<threshold_segregatable<L1>, L2> sg(threshold_segregatable<L1>(64, L1{}), L2{});
          std::size_t a0 = L1::log().size(), b0 = L2::log().size(); void* p = sg.allocate_node(32, 8); sg.deallocate_node(p, 32, 8); void* q = sg.allocate_node(128, 8); sg.deallocate_node(q, 128, 8);
          expect(L1::log().size() == a0 + 2 && L2::log().size() == b0 + 2, "binary_segregator: allocation and release go to the same side"); }
        { binary_segregator<odd_segregatable, L2> sg(odd_segregatable{}, L2{}); std::size_t a0 = L1::log().size(), b0 = L2::log().size();
          void* q = sg.allocate_array(2, 8, 8); sg.deallocate_array(q, 2, 8, 8);
          expect(L1::log().size() == a0 && L2::log().size() == b0 + 2 && L2::log().back().kind == 4, "binary_segregator with a Segregatable whose array predicate differs: the array is released where it was allocated"); }
        { fallback_allocator<L1, L2> fb(L1{}, L2{}); L1::owns_all() = false; std::size_t b0 = L2::log().size(); void* p = fb.allocate_node(16, 8); fb.deallocate_node(p, 16, 8);
          void* q = fb.allocate_array(3, 16, 8); fb.deallocate_array(q, 3, 16, 8); L1::owns_all() = true;
          expect(L2::log().size() == b0 + 4 && L2::log()[b0].kind == 1 && L2::log()[b0 + 1].kind == 3 && L2::log()[b0 + 2].kind == 2 && L2::log()[b0 + 3].kind == 4, "fallback_allocator: what the fallback served is released to the fallback, same kind"); }
        { L1::need_lock() = true; held = 0; unlocked_access = 0; bad_unlock = 0;
          allocator_storage<direct_storage<L1>, rec_mutex> ts(L1{}); round_trip<L1>(ts, ts, 1, "thread_safe storage forwards unchanged");
          ts.max_node_size(); ts.max_array_size(); ts.max_alignment();
          { auto l = ts.lock(); l->allocate_node(8, 8); auto l2 = std::move(l); l2->max_node_size(); }
          expect(unlocked_access == 0 && bad_unlock == 0 && held == 0, "thread_safe_allocator: the wrapped allocator is only entered with the mutex held; lock()/unlock() balanced (also for a moved proxy)");
          L1::need_lock() = false; }
        { using E = rec_alloc_empty<3>; E::need_lock() = true; held = 0; unlocked_access = 0;
          allocator_storage<direct_storage<E>, rec_mutex> ts(E{}); void* p = ts.allocate_node(8, 8); ts.deallocate_node(p, 8, 8); ts.max_node_size();
          expect(unlocked_access == 0, "thread_safe_allocator over an EMPTY but stateful allocator still takes the mutex"); E::need_lock() = false; }
        { L1 leaf; std_allocator<long, L1> sa(leaf); std::size_t n0 = L1::log().size(); long* p = sa.allocate(1); sa.deallocate(p, 1); long* q = sa.allocate(7); sa.deallocate(q, 7);
          expect(L1::log().size() == n0 + 4 && L1::log()[n0].kind == 1 && L1::log()[n0 + 1].kind == 3 && L1::log()[n0 + 2].kind == 2 && L1::log()[n0 + 2].count == 7 && L1::log()[n0 + 3].kind == 4 && L1::log()[n0 + 3].count == 7,
                 "std_allocator: n == 1 is a node on both sides, anything else an array of n");
          L1 other; std_allocator<long, L1> sb(other), sc(leaf); expect(!(sa == sb) && sa == sc && (sa != sb), "std_allocator equality follows the referenced allocator object"); }
        return bad;
    }
}
