// Native replay for the smart_ptr.hpp groups (unit smartptr) and joint_ptr::create: drives the REAL allocate_unique / allocate_unique<T[]> / deleters (with the
// REAL std::unique_ptr of the toolchain, not the model) over a recording RawAllocator and element types whose constructors throw on request, and checks
// what the failed obligations state: one allocation, on failure exactly one release with the allocation's own parameters to the same allocator, every
// constructed object destroyed exactly once before the release, the exception propagated unchanged.
#pragma once
#include <smart_ptr.hpp>
#include <vector>
namespace sp_suite
{
    struct rec
    {
        char kind; void* self; void* p; std::size_t count, size, alignment;
    };
    static std::vector<rec> log_;
    struct rec_alloc
    {
        using is_stateful = std::true_type;
        int id;
        void* allocate_node(std::size_t size, std::size_t alignment)
        { void* p = std::aligned_alloc(16, (size + 15) / 16 * 16); log_.push_back({'A', this, p, 1, size, alignment}); return p; }
        void* allocate_array(std::size_t count, std::size_t size, std::size_t alignment)
        { void* p = std::aligned_alloc(16, (count * size + 16) / 16 * 16); log_.push_back({'B', this, p, count, size, alignment}); return p; }
        void deallocate_node(void* p, std::size_t size, std::size_t alignment) noexcept { log_.push_back({'a', this, p, 1, size, alignment}); std::free(p); }
        void deallocate_array(void* p, std::size_t count, std::size_t size, std::size_t alignment) noexcept { log_.push_back({'b', this, p, count, size, alignment}); std::free(p); }
        std::size_t max_node_size() const { return std::size_t(-1); }
        std::size_t max_array_size() const { return std::size_t(-1); }
        std::size_t max_alignment() const { return 16; }
    };
    static int live = 0, made = 0, throw_at = -1; static std::vector<void*> ctor_log, dtor_log;
    struct boom { int v; };
    struct obj
    {
        long a, b, c;
        explicit obj(int x) : a(x), b(0), c(0) { if (throw_at == made) throw boom{made}; ++made; ++live; ctor_log.push_back(this); }
        obj() : obj(0) {}
        ~obj() { --live; dtor_log.push_back(this); log_.push_back({'d', nullptr, this, 0, 0, 0}); }
    };
    static void reset(int t) { log_.clear(); ctor_log.clear(); dtor_log.clear(); live = 0; made = 0; throw_at = t; }
    static std::size_t count(char k) { std::size_t n = 0; for (auto& r : log_) n += r.kind == k; return n; }
    static const rec* first(char k) { for (auto& r : log_) if (r.kind == k) return &r; return nullptr; }
    static bool matches(const rec* a, const rec* d) { return a && d && a->self == d->self && a->p == d->p && a->count == d->count && a->size == d->size && a->alignment == d->alignment; }
    // every 'd' (destruction) entry precedes the release entry
    static bool destroyed_before_release(char rel) { bool seen = false; for (auto& r : log_) { if (r.kind == rel) seen = true; else if (r.kind == 'd' && seen) return false; } return true; }

    static int run()
    {
        using namespace foonathan::memory;
        int bad = 0;
        rec_alloc al{1}, other{2};
        (void)other;
        // 1. single object, constructor throws
        reset(0);
        try { auto p = allocate_unique<obj>(al, 7); std::printf("no exception from a throwing constructor\n"); bad = 1; }
        catch (const boom& b) { if (b.v != 0) { std::printf("exception changed\n"); bad = 1; } }
        if (count('A') != 1 || count('a') != 1 || !matches(first('A'), first('a')) || first('A')->size != sizeof(obj) || first('A')->alignment != alignof(obj) || first('A')->self != &al || count('d') != 0)
        { std::printf("allocate_unique with a throwing constructor: %zu allocations, %zu releases (matching: %d), %zu destructor calls\n", count('A'), count('a'), (int)matches(first('A'), first('a')), count('d')); bad = 1; }
        // 2. single object, success then reset
        reset(-1);
        { auto p = allocate_unique<obj>(al, 7);
          if (count('A') != 1 || count('a') != 0 || live != 1 || (void*)p.get() != first('A')->p) { std::printf("allocate_unique success: wrong log\n"); bad = 1; } }
        if (count('a') != 1 || !matches(first('A'), first('a')) || count('d') != 1 || live != 0 || !destroyed_before_release('a'))
        { std::printf("unique_ptr from allocate_unique let go: %zu releases (matching: %d), %zu destructor calls, destroyed before release: %d\n", count('a'), (int)matches(first('A'), first('a')), count('d'), (int)destroyed_before_release('a')); bad = 1; }
        // 3. arrays: the k-th element constructor throws
        for (int k : {0, 1, 3, 6})
        {
            reset(k);
            try { auto q = allocate_unique<obj[]>(al, 7u); std::printf("no exception from a throwing element constructor\n"); bad = 1; }
            catch (const boom& b) { if (b.v != k) { std::printf("exception changed\n"); bad = 1; } }
            bool same = ctor_log.size() == dtor_log.size();
            for (auto c : ctor_log) same = same && std::count(dtor_log.begin(), dtor_log.end(), c) == 1;
            if (count('B') != 1 || count('b') != 1 || !matches(first('B'), first('b')) || first('B')->count != 7 || first('B')->size != sizeof(obj) || live != 0 || !same || (int)ctor_log.size() != k || !destroyed_before_release('b'))
            { std::printf("allocate_unique<T[]>(7), element %d throws: %zu allocations, %zu releases (matching: %d), constructed %zu, destroyed %zu, live %d\n", k, count('B'), count('b'), (int)matches(first('B'), first('b')), ctor_log.size(), dtor_log.size(), live); bad = 1; }
        }
        // 4. arrays: success then let go
        reset(-1);
        { auto q = allocate_unique<obj[]>(al, 5u);
          if (count('B') != 1 || count('b') != 0 || live != 5 || q.get_deleter().array_size() != 5) { std::printf("allocate_unique<T[]> success: wrong log\n"); bad = 1; } }
        if (count('b') != 1 || !matches(first('B'), first('b')) || count('d') != 5 || live != 0 || !destroyed_before_release('b'))
        { std::printf("array unique_ptr let go: %zu releases (matching: %d), %zu destructor calls, live %d\n", count('b'), (int)matches(first('B'), first('b')), count('d'), live); bad = 1; }
        // 5. type-erased overload
        reset(0);
        try { auto p = allocate_unique<obj>(any_allocator{}, al, 7); bad = 1; }
        catch (const boom&) {}
        if (count('A') != 1 || count('a') != 1 || !matches(first('A'), first('a'))) { std::printf("allocate_unique(any_allocator) with a throwing constructor: %zu allocations, %zu matching releases\n", count('A'), count('a')); bad = 1; }
        return bad;
    }
} // namespace sp_suite
