// Native replay support: a replay driver re-creates the verifier's counterexample against the REAL
// sources of the working tree and evaluates the failed postcondition natively.
// Usage: replay name=value ...   exit 1 = violation reproduced, exit 0 = not reproduced.
#pragma once
#include <cstdint>
#include <cstdio>
#include <cstdlib>
#include <cstring>
#include <map>
#include <string>

struct Cex
{
    std::map<std::string, unsigned long long> v;
    bool has(const char* n) const { return v.count(n) != 0; }
    unsigned long long u64(const char* n, unsigned long long dflt = 0) const
    {
        auto it = v.find(n);
        return it == v.end() ? dflt : it->second;
    }
};

static int verif_failed = 0;
#define EXPECT(cond)                                                                               \
    do                                                                                             \
    {                                                                                              \
        if (!(cond))                                                                               \
        {                                                                                          \
            std::printf("REPRODUCED: %s is false (%s:%d)\n", #cond, __FILE__, __LINE__);           \
            verif_failed = 1;                                                                      \
        }                                                                                          \
    } while (0)

int replay(const Cex& c);

int main(int argc, char** argv)
{
    Cex c;
    for (int i = 1; i < argc; ++i)
    {
        const char* eq = std::strchr(argv[i], '=');
        if (!eq)
            continue;
        c.v[std::string(argv[i], (std::size_t)(eq - argv[i]))] = std::strtoull(eq + 1, nullptr, 10);
        std::printf("input %s\n", argv[i]);
    }
    int r = replay(c);
    if (!r && !verif_failed)
        std::printf("not reproduced natively\n");
    return (r || verif_failed) ? 1 : 0;
}
