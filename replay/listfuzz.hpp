// Native replay support for the free-list groups: the verifier's counterexamples for these groups live in an abstraction (oracle list,
// window of nodes), so the replay searches the neighbourhood the failed obligation names instead: it drives the REAL list through
// scripted and pseudo-random allocate / deallocate histories with a shadow model and checks, after every operation,
//   - a returned range lies inside the inserted block, on node boundaries, and overlaps no live range          (C01, C02)
//   - the bytes of every live range are what the "user" wrote                                                   (C01)
//   - capacity() equals the number of nodes the model says are free                                             (C04, C18)
// A violation is reported with the history that produced it. This decides nothing; it only turns a failed obligation into a failing input.
#pragma once
#include <vector>
#include <algorithm>
template <class List>
struct list_fuzz
{
    std::size_t ns, nodes; char* block; List list;
    struct live_t { char* p; std::size_t bytes; unsigned char tag; };
    std::vector<live_t> live; std::size_t free_nodes; int bad = 0; unsigned long rng;
    list_fuzz(std::size_t node_size, std::size_t n, unsigned long seed)
    : ns(node_size < 8 ? 8 : node_size), nodes(n), block(static_cast<char*>(std::aligned_alloc(16, (ns * n + 15) / 16 * 16))), list(ns, block, ns * n), free_nodes(n), rng(seed * 2654435761ul + 12345)
    { if (list.capacity() != n) { std::printf("capacity after insert %zu, expected %zu\n", list.capacity(), n); bad = 1; } }
    unsigned long next() { rng = rng * 6364136223846793005ul + 1442695040888963407ul; return rng >> 33; }
    std::size_t cnt(std::size_t bytes) const { return (bytes + ns - 1) / ns; }
    void verify(const char* what)
    {
        for (auto& l : live)
            for (std::size_t i = 0; i < l.bytes; ++i)
                if (static_cast<unsigned char>(l.p[i]) != l.tag) { std::printf("%s: live range %p+%zu (tag %u) was overwritten at byte %zu\n", what, (void*)l.p, l.bytes, l.tag, i); bad = 1; return; }
        if (list.capacity() != free_nodes) { std::printf("%s: capacity() == %zu but %zu nodes are free\n", what, list.capacity(), free_nodes); bad = 1; }
    }
    void alloc(std::size_t bytes)
    {
        if (free_nodes < cnt(bytes)) return;
        void* r = bytes <= ns ? list.allocate() : list.allocate(bytes);
        if (!r) return;                      // arrays may fail (no contiguous run): fine
        char* p = static_cast<char*>(r);
        if (p < block || p + cnt(bytes) * ns > block + ns * nodes || (p - block) % ns) { std::printf("allocate(%zu) -> %p is outside the block / off a node boundary\n", bytes, r); bad = 1; return; }
        for (auto& l : live)
            if (p < l.p + cnt(l.bytes) * ns && l.p < p + cnt(bytes) * ns) { std::printf("allocate(%zu) -> %p overlaps the live range %p+%zu\n", bytes, r, (void*)l.p, l.bytes); bad = 1; return; }
        unsigned char tag = static_cast<unsigned char>(0x11 + live.size() * 7 + (next() & 63));
        std::memset(p, tag, bytes);
        live.push_back({p, bytes, tag}); free_nodes -= cnt(bytes);
        verify("after allocate");
    }
    void dealloc(std::size_t idx)
    {
        if (live.empty()) return;
        idx %= live.size(); auto l = live[idx]; live.erase(live.begin() + idx);
        if (l.bytes <= ns) list.deallocate(l.p); else list.deallocate(l.p, l.bytes);
        free_nodes += cnt(l.bytes);
        verify("after deallocate");
    }
    // scripted + random histories; array sizes include byte counts that are not multiples of the node size
    int run(std::size_t array_bytes)
    {
        for (int step = 0; step < 400 && !bad; ++step)
        {
            unsigned long r = next() % 10;
            if (r < 4) alloc(ns);
            else if (r < 6) alloc(array_bytes);
            else if (r < 7) alloc(2 * ns + 1 + next() % ns);
            else dealloc(next());
        }
        while (!live.empty() && !bad) dealloc(next());
        if (!bad && list.capacity() != nodes) { std::printf("everything released but capacity() == %zu of %zu\n", list.capacity(), nodes); bad = 1; }
        // drain: the list must hand out every node of the block exactly once (a node lost or linked twice by a release shows here)
        for (std::size_t i = 0; i < nodes && !bad; ++i) alloc(ns);
        if (!bad && (live.size() != nodes || list.capacity() != 0)) { std::printf("drain: %zu of %zu nodes handed out, capacity() == %zu\n", live.size(), nodes, list.capacity()); bad = 1; }
        while (!live.empty() && !bad) dealloc(next());
        return bad;
    }
};
