#include <stddef.h>
#include <stdint.h>
#include <stdlib.h>
static inline uintptr_t get_int(void* address){ return *(uintptr_t*)address; }
static inline void set_int(void* address, uintptr_t i){ *(uintptr_t*)address = i; }
static inline char* list_get_next(void* a){ return (char*)get_int(a); }
static inline void list_set_next(void* a, char* p){ set_int(a,(uintptr_t)p); }
struct fl { char* first_; size_t node_size_, capacity_; };
size_t g_k;
void insert_impl(struct fl* self, void* mem, size_t size)
{
    size_t no_nodes = size / self->node_size_;
    char* cur = (char*)mem;
    for (size_t i = 0u; i != no_nodes - 1; ++i)
    __CPROVER_assigns(i, cur, __CPROVER_object_whole(mem))
    __CPROVER_loop_invariant(i <= no_nodes - 1 && __CPROVER_same_object(cur, mem) && __CPROVER_POINTER_OFFSET(cur) == i * self->node_size_)
    __CPROVER_loop_invariant(g_k < i ==> *(char**)((char*)mem + g_k * self->node_size_) == (char*)mem + (g_k+1) * self->node_size_)
    __CPROVER_decreases(no_nodes - 1 - i)
    {
        list_set_next(cur, cur + self->node_size_);
        cur += self->node_size_;
    }
    list_set_next(cur, self->first_);
    self->first_ = (char*)mem;
    self->capacity_ += no_nodes;
}
void harness(void){
  struct fl s; size_t sz; size_t k; g_k = k;
  __CPROVER_assume(k < MAXSZ && s.node_size_==NS && sz>=s.node_size_ && sz<=MAXSZ && s.capacity_ < 1000);
  char* m = malloc(sz); __CPROVER_assume(m);
  struct fl old = s;
  insert_impl(&s,m,sz);
  size_t n = sz / old.node_size_;
  __CPROVER_assert(s.capacity_==old.capacity_+n, "capacity grows by floor(size/node_size)");
  __CPROVER_assert(s.first_==m && s.node_size_==old.node_size_, "head is block start; node size unchanged");
  __CPROVER_assert(!(k + 1 < n) || list_get_next(m + k*old.node_size_) == m + (k+1)*old.node_size_, "node k links to node k+1");
  __CPROVER_assert(list_get_next(m + (n-1)*old.node_size_) == old.first_, "last node links to old head");
}
