#include <foonathan/memory/memory_pool.hpp>
#include <foonathan/memory/memory_pool_collection.hpp>
#include <foonathan/memory/iteration_allocator.hpp>
#include <foonathan/memory/static_allocator.hpp>
#include <foonathan/memory/temporary_allocator.hpp>
#include <foonathan/memory/allocator_traits.hpp>
#include <cstdio>
#include <cstdlib>
#include <cstring>
using namespace foonathan::memory;
struct counting_block_alloc {
  static int allocs, deallocs; std::size_t sz;
  counting_block_alloc(std::size_t s):sz(s){}
  memory_block allocate_block(){ ++allocs; return {std::aligned_alloc(16, sz), sz}; }
  void deallocate_block(memory_block b) noexcept { ++deallocs; std::free(b.memory); }
  std::size_t next_block_size() const noexcept { return sz; }
};
int counting_block_alloc::allocs=0; int counting_block_alloc::deallocs=0;
int main(int argc,char**argv){
  switch(argv[1][0]){
  case '3': { // F-3
    memory_pool<array_pool> pool(16, 4096);
    using tr = allocator_traits<memory_pool<array_pool>>;
    for(int i=0;i<3;i++){ auto before=pool.capacity_left(); void* p=tr::allocate_array(pool,3,8,8); tr::deallocate_array(pool,p,3,8,8); std::printf("F-3 cycle %d: capacity %zu -> %zu\n",i,before,pool.capacity_left()); }
    break; }
  case '4': { // F-4
    { iteration_allocator<2,counting_block_alloc> a(1024), b(1024); a = std::move(b); }
    std::printf("F-4: allocs=%d deallocs=%d\n", counting_block_alloc::allocs, counting_block_alloc::deallocs);
    break; }
  case '5': { // F-5
    iteration_allocator<3,counting_block_alloc> a(1025);
    for(int i=0;i<3;i++) std::printf("F-5: capacity_left(%d)=%zu\n", i, a.capacity_left(i));
    a.next_iteration(); std::printf("after 1\n"); a.next_iteration(); std::printf("after 2\n");
    break; }
  case '1': { // F-1: collection on fixed block: try_allocate_node returns same bytes
    static_allocator_storage<4096> st;
    using coll = memory_pool_collection<node_pool, identity_buckets, static_block_allocator>;
    coll c(64, 4096, st);
    void* last=nullptr; int same=0, n=0;
    for(int i=0;i<200;i++){ void* p=c.try_allocate_node(64); if(!p){std::printf("F-1: null after %d\n",i);break;} if(p==last) same++; std::memset(p,0xAB,64); last=p; n++; }
    std::printf("F-1: %d successes from a 4096-byte block of 64-byte nodes (max 63 possible)\n", n);
    break; }
  case 'b': { // F-11
    temporary_stack* s1; { temporary_stack_initializer init; s1=&get_temporary_stack(); }
    temporary_stack* s2=&get_temporary_stack();
    std::printf("F-11: same stack after initializer destroyed: %d\n", s1==s2);
    break; }
  }
}
