#include <foonathan/memory/memory_pool.hpp>
#include <foonathan/memory/virtual_memory.hpp>
#include <foonathan/memory/debugging.hpp>
#include <cstdio>
#include <cstdlib>
using namespace foonathan::memory;
static void h(const allocator_info& i, const void* p){ std::printf("invalid-pointer handler called for %p\n", p); std::exit(42); }
int main(int argc, char** argv){
  set_invalid_pointer_handler(h);
  if (argv[1][0]=='7') {
    memory_pool<node_pool> pool(16, 4096);
    void* a = pool.allocate_node(); void* b = pool.allocate_node(); void* c = pool.allocate_node();
    pool.deallocate_node(b);
    pool.deallocate_node(b); // double free of most recently freed
    std::printf("no report\n");
  } else if (argv[1][0]=='9') {
    virtual_block_allocator a(get_virtual_memory_page_size(), 4);
    virtual_block_allocator b(std::move(a));
    std::printf("moved; destroying moved-from next\n");
  }
  return 0;
}
