#include <stddef.h>
#include <stdint.h>
#define chunk_memory_offset 32ul
#define chunk_max_nodes 255ul
static inline size_t align_offset(uintptr_t address, size_t alignment){ size_t m = address & (alignment-1); return m? alignment-m:0; }
static inline size_t chunk_count(size_t n){ return n / chunk_max_nodes + (n % chunk_max_nodes == 0 ? 0 : 1); }
static inline size_t min_block_size(size_t node_size, size_t n){ size_t t = chunk_memory_offset + chunk_max_nodes * node_size; return chunk_count(n) * (t + align_offset(t, 8)); }
/* spec of what insert() yields (from insert body) */
static inline size_t nodes_for(size_t node_size, size_t size){
  size_t total = chunk_memory_offset + node_size * chunk_max_nodes;
  size_t buf = align_offset(total, 8);
  size_t no_chunks = size / (total + buf);
  size_t rem = size % (total + buf);
  size_t nn = no_chunks * chunk_max_nodes;
  if (rem >= chunk_memory_offset + node_size) nn += (unsigned char)((rem - chunk_memory_offset)/node_size);
  return nn;
}
void harness(void){
  size_t ns, n; __CPROVER_assume(ns>=1 && ns<=NSMAX && n>=1 && n<=NMAX);
  __CPROVER_assert(nodes_for(ns, min_block_size(ns,n)) >= n, "min_block_size suffices");
}
