#include <foonathan/memory/fallback_allocator.hpp>
#include <foonathan/memory/allocator_traits.hpp>
namespace verif {
struct leaf_d { int id;
  using is_stateful = std::true_type;
  void* allocate_node(std::size_t, std::size_t);
  void* allocate_array(std::size_t, std::size_t, std::size_t);
  void deallocate_node(void*, std::size_t, std::size_t) noexcept;
  void deallocate_array(void*, std::size_t, std::size_t, std::size_t) noexcept;
  void* try_allocate_node(std::size_t, std::size_t) noexcept;
  void* try_allocate_array(std::size_t, std::size_t, std::size_t) noexcept;
  bool try_deallocate_node(void*, std::size_t, std::size_t) noexcept;
  bool try_deallocate_array(void*, std::size_t, std::size_t, std::size_t) noexcept;
  std::size_t max_node_size() const; std::size_t max_array_size() const; std::size_t max_alignment() const;
};
struct leaf_f : leaf_d {};
}
using namespace foonathan::memory;
using inner = fallback_allocator<verif::leaf_d, verif::leaf_f>;
using outer = fallback_allocator<inner, verif::leaf_f>;
template class foonathan::memory::fallback_allocator<verif::leaf_d, verif::leaf_f>;
template class foonathan::memory::fallback_allocator<inner, verif::leaf_f>;
void* use_try_alloc_array(outer& o){ return composable_allocator_traits<outer>::try_allocate_array(o, 1, 2, 4); }
bool use_try_dealloc_array(outer& o, void* p){ return composable_allocator_traits<outer>::try_deallocate_array(o, p, 1, 2, 4); }
