#include <stddef.h>
#include <string.h>
int __exc; enum { EXC_out_of_fixed_memory = 1 };
struct iteration_allocator {
  struct verif__block_alloc base_struct_verif__block_alloc;
  struct detail__fixed_memory_stack stacks_[3];
  struct memory_block block_;
  unsigned long cur_;
};
struct verif__block_alloc {
  int id;
};
struct detail__fixed_memory_stack {
  char * cur_;
};
struct memory_block {
  void * memory;
  unsigned long size;
};
struct fixed_memory_stack {
  char * cur_;
};
void f__ZN9foonathan6memory6detail10debug_fillEPvmNS0_11debug_magicE(void * memory, unsigned long size, unsigned char m);
unsigned long f__ZNK9foonathan6memory19iteration_allocatorILm3EN5verif11block_allocEE13capacity_leftEm(struct iteration_allocator *self, unsigned long i);
char * f__ZNK9foonathan6memory6detail18fixed_memory_stack3topEv(struct fixed_memory_stack *self);
char * f__ZNK9foonathan6memory19iteration_allocatorILm3EN5verif11block_allocEE9block_endEm(struct iteration_allocator *self, unsigned long i);
char * f__ZNK9foonathan6memory19iteration_allocatorILm3EN5verif11block_allocEE11block_startEm(struct iteration_allocator *self, unsigned long i);
void * f__ZN9foonathan6memory19iteration_allocatorILm3EN5verif11block_allocEE8allocateEmm(struct iteration_allocator *self, unsigned long size, unsigned long alignment);
void * f__ZN9foonathan6memory6detail18fixed_memory_stack18allocate_uncheckedEmmm(struct fixed_memory_stack *self, unsigned long size, unsigned long align_offset, unsigned long fence_size);
void * f__ZN9foonathan6memory6detail18fixed_memory_stack11bump_returnEmNS0_11debug_magicE(struct fixed_memory_stack *self, unsigned long offset, unsigned char m);
void f__ZN9foonathan6memory6detail18fixed_memory_stack4bumpEmNS0_11debug_magicE(struct fixed_memory_stack *self, unsigned long offset, unsigned char m);
void f__ZN9foonathan6memory6detail18fixed_memory_stack4bumpEm(struct fixed_memory_stack *self, unsigned long offset);
unsigned long f__ZN9foonathan6memory6detail12align_offsetEPvm(void * ptr, unsigned long alignment);
unsigned long f__ZN9foonathan6memory6detail12align_offsetEmm(unsigned long address, unsigned long alignment);
void * f__ZN9foonathan6memory19iteration_allocatorILm3EN5verif11block_allocEE12try_allocateEmm(struct iteration_allocator *self, unsigned long size, unsigned long alignment);
void * f__ZN9foonathan6memory6detail18fixed_memory_stack8allocateEPKcmmm(struct fixed_memory_stack *self, char * end, unsigned long size, unsigned long alignment, unsigned long fence_size);
void f__ZN9foonathan6memory19iteration_allocatorILm3EN5verif11block_allocEE14next_iterationEv(struct iteration_allocator *self);
void f__ZN9foonathan6memory6detail18fixed_memory_stack6unwindEPc(struct fixed_memory_stack *self, char * top);
unsigned long f__ZNK9foonathan6memory19iteration_allocatorILm3EN5verif11block_allocEE13capacity_leftEm(struct iteration_allocator *self, unsigned long i)
{
  return ((unsigned long)((unsigned long)(f__ZNK9foonathan6memory19iteration_allocatorILm3EN5verif11block_allocEE9block_endEm(self, i) - f__ZNK9foonathan6memory6detail18fixed_memory_stack3topEv(&self->stacks_[i]))));
}

char * f__ZNK9foonathan6memory6detail18fixed_memory_stack3topEv(struct fixed_memory_stack *self)
{
  return self->cur_;
}

char * f__ZNK9foonathan6memory19iteration_allocatorILm3EN5verif11block_allocEE9block_endEm(struct iteration_allocator *self, unsigned long i)
{
  ;
  return f__ZNK9foonathan6memory19iteration_allocatorILm3EN5verif11block_allocEE11block_startEm(self, (i + ((unsigned long)1)));
}

char * f__ZNK9foonathan6memory19iteration_allocatorILm3EN5verif11block_allocEE11block_startEm(struct iteration_allocator *self, unsigned long i)
{
  ;
  char * ptr = ((char *)self->block_.memory);
  return (ptr + (((i * self->block_.size) / 3ul)));
}

void * f__ZN9foonathan6memory19iteration_allocatorILm3EN5verif11block_allocEE8allocateEmm(struct iteration_allocator *self, unsigned long size, unsigned long alignment)
{
  struct detail__fixed_memory_stack * stack = self->stacks_[self->cur_];
  unsigned long fence = debug_fence_size;
  unsigned long offset = f__ZN9foonathan6memory6detail12align_offsetEPvm(((void *)(f__ZNK9foonathan6memory6detail18fixed_memory_stack3topEv(&(*stack)) + fence)), alignment);
  if (((!((_Bool)f__ZNK9foonathan6memory6detail18fixed_memory_stack3topEv(&(*stack)))) || (((((fence + offset) + size) + fence) > ((unsigned long)((unsigned long)(f__ZNK9foonathan6memory19iteration_allocatorILm3EN5verif11block_allocEE9block_endEm(self, self->cur_) - f__ZNK9foonathan6memory6detail18fixed_memory_stack3topEv(&(*stack)))))))))
    { __exc = EXC_out_of_fixed_memory; return 0; }  /* throw out_of_fixed_memory(...) : exception object ctor omitted in this prototype */
  return f__ZN9foonathan6memory6detail18fixed_memory_stack18allocate_uncheckedEmmm(&(*stack), size, offset, debug_fence_size);
}

void * f__ZN9foonathan6memory6detail18fixed_memory_stack18allocate_uncheckedEmmm(struct fixed_memory_stack *self, unsigned long size, unsigned long align_offset, unsigned long fence_size)
{
  f__ZN9foonathan6memory6detail18fixed_memory_stack4bumpEmNS0_11debug_magicE(self, fence_size, 253 /*fence_memory*/);
  f__ZN9foonathan6memory6detail18fixed_memory_stack4bumpEmNS0_11debug_magicE(self, align_offset, 237 /*alignment_memory*/);
  void * mem = f__ZN9foonathan6memory6detail18fixed_memory_stack11bump_returnEmNS0_11debug_magicE(self, size, 205 /*new_memory*/);
  f__ZN9foonathan6memory6detail18fixed_memory_stack4bumpEmNS0_11debug_magicE(self, fence_size, 253 /*fence_memory*/);
  return mem;
}

void * f__ZN9foonathan6memory6detail18fixed_memory_stack11bump_returnEmNS0_11debug_magicE(struct fixed_memory_stack *self, unsigned long offset, unsigned char m)
{
  char * memory = self->cur_;
  f__ZN9foonathan6memory6detail10debug_fillEPvmNS0_11debug_magicE(((void *)memory), offset, m);
  (self->cur_ += offset);
  return ((void *)memory);
}

void f__ZN9foonathan6memory6detail18fixed_memory_stack4bumpEmNS0_11debug_magicE(struct fixed_memory_stack *self, unsigned long offset, unsigned char m)
{
  f__ZN9foonathan6memory6detail10debug_fillEPvmNS0_11debug_magicE(((void *)self->cur_), offset, m);
  f__ZN9foonathan6memory6detail18fixed_memory_stack4bumpEm(self, offset);
}

void f__ZN9foonathan6memory6detail18fixed_memory_stack4bumpEm(struct fixed_memory_stack *self, unsigned long offset)
{
  (self->cur_ += offset);
}

unsigned long f__ZN9foonathan6memory6detail12align_offsetEPvm(void * ptr, unsigned long alignment)
{
  return f__ZN9foonathan6memory6detail12align_offsetEmm(((unsigned long)ptr), alignment);
}

unsigned long f__ZN9foonathan6memory6detail12align_offsetEmm(unsigned long address, unsigned long alignment)
{
  ;
  unsigned long misaligned = (address & ((alignment - ((unsigned long)1))));
  return ((misaligned != ((unsigned long)0)) ? ((alignment - misaligned)) : ((unsigned long)0));
}

void * f__ZN9foonathan6memory19iteration_allocatorILm3EN5verif11block_allocEE12try_allocateEmm(struct iteration_allocator *self, unsigned long size, unsigned long alignment)
{
  struct detail__fixed_memory_stack * stack = self->stacks_[self->cur_];
  return f__ZN9foonathan6memory6detail18fixed_memory_stack8allocateEPKcmmm(&(*stack), f__ZNK9foonathan6memory19iteration_allocatorILm3EN5verif11block_allocEE9block_endEm(self, self->cur_), size, alignment, debug_fence_size);
}

void * f__ZN9foonathan6memory6detail18fixed_memory_stack8allocateEPKcmmm(struct fixed_memory_stack *self, char * end, unsigned long size, unsigned long alignment, unsigned long fence_size)
{
  if ((self->cur_ == ((void*)0)))
    return ((void*)0);
  unsigned long remaining = ((unsigned long)((unsigned long)(end - self->cur_)));
  unsigned long offset = f__ZN9foonathan6memory6detail12align_offsetEPvm(((void *)(self->cur_ + fence_size)), alignment);
  if (((((fence_size + offset) + size) + fence_size) > remaining))
    return ((void*)0);
  return f__ZN9foonathan6memory6detail18fixed_memory_stack18allocate_uncheckedEmmm(self, size, offset, fence_size);
}

void f__ZN9foonathan6memory19iteration_allocatorILm3EN5verif11block_allocEE14next_iterationEv(struct iteration_allocator *self)
{
  ;
  (self->cur_ = (((self->cur_ + ((unsigned long)1))) % 3ul));
  f__ZN9foonathan6memory6detail18fixed_memory_stack6unwindEPc(&self->stacks_[self->cur_], f__ZNK9foonathan6memory19iteration_allocatorILm3EN5verif11block_allocEE11block_startEm(self, self->cur_));
}

void f__ZN9foonathan6memory6detail18fixed_memory_stack6unwindEPc(struct fixed_memory_stack *self, char * top)
{
  f__ZN9foonathan6memory6detail10debug_fillEPvmNS0_11debug_magicE(((void *)top), ((unsigned long)((unsigned long)(self->cur_ - top))), 221 /*freed_memory*/);
  (self->cur_ = top);
}

