#include <foonathan/memory/memory_pool_collection.hpp>
#include <foonathan/memory/allocator_traits.hpp>
#include <cstdio>
using namespace foonathan::memory;
int main(){
  using coll = memory_pool_collection<array_pool, log2_buckets>;
  coll c(64, 4096);
  std::printf("def capacity approx=%zu next=%zu\n", c.capacity_left(), c.next_capacity());
  // count*24 must exceed def_capacity (4080/#pools) and not be a multiple of 32
  for (std::size_t count : {30u, 41u, 50u, 99u}) {
    try { void* p = c.allocate_array(count, 24); std::printf("allocate_array(%zu,24) -> %p\n", count, p); }
    catch (std::bad_alloc& e) { std::printf("allocate_array(%zu,24) threw %s\n", count, e.what()); }
  }
}
