#include <stddef.h>
#include <stdint.h>
#include <stdlib.h>
#define OFF 32ul
struct chunk_base { struct chunk_base* prev; struct chunk_base* next; unsigned char first_free, capacity, no_nodes; };
static unsigned char* list_memory(struct chunk_base* self){ void* mem = self; return (unsigned char*)mem + OFF; }
static unsigned char* node_memory(struct chunk_base* self, unsigned char i, size_t node_size){ return list_memory(self) + i * node_size; }
_Bool contains(struct chunk_base* self, unsigned char* node, size_t node_size)
{
    unsigned char cur_index = self->first_free;
    while (cur_index != self->no_nodes)
    {
        unsigned char* cur_mem = node_memory(self, cur_index, node_size);
        if (cur_mem == node) return 1;
        cur_index = *cur_mem;
    }
    return 0;
}
/* bounded stand-in harness: chunk with NN nodes of constant node size NS, arbitrary contents;
   precondition: link bytes of nodes are < = no_nodes (well-formed indices) */
void harness(void){
  size_t ns = NS; unsigned char nn = NN;
  unsigned char* mem = malloc(OFF + (size_t)NN*NS); __CPROVER_assume(mem);
  struct chunk_base* c = (struct chunk_base*)mem;
  c->no_nodes = nn; __CPROVER_assume(c->first_free <= nn);
  for (unsigned k=0;k<NN;k++) __CPROVER_assume(mem[OFF + k*NS] <= nn);
  /* acyclic: assume strictly increasing links for this probe */
  for (unsigned k=0;k<NN;k++) __CPROVER_assume(mem[OFF + k*NS] > k);
  unsigned char idx; __CPROVER_assume(idx < nn);
  unsigned char* node = mem + OFF + idx*ns;
  _Bool r = contains(c, node, ns);
  /* spec: if node is first_free then true */
  __CPROVER_assert(!(c->first_free == idx) || r, "first free node is found");
}
