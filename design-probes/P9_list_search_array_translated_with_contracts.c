#include <stddef.h>
#include <stdint.h>
#include <string.h>
#include <stdlib.h>
struct interval {
  char * prev;
  char * first;
  char * last;
  char * next;
};
struct interval f__ZN12_GLOBAL__N_117list_search_arrayEPcmm(char * first, unsigned long bytes_needed, unsigned long node_size);
char* g_arena; unsigned long g_arena_size, g_ns;
char * f__ZN9foonathan6memory6detail13list_get_nextEPv(void * address)
__CPROVER_requires((__CPROVER_same_object(address, g_arena) && __CPROVER_POINTER_OFFSET(address) + g_ns <= g_arena_size))
__CPROVER_assigns()
__CPROVER_ensures(__CPROVER_return_value == 0 || (__CPROVER_same_object(__CPROVER_return_value, g_arena) && __CPROVER_POINTER_OFFSET(__CPROVER_return_value) + g_ns <= g_arena_size));
unsigned long f__ZN9foonathan6memory6detail7get_intEPv(void * address);
char * f__ZN9foonathan6memory6detail8from_intEm(unsigned long i);
struct interval f__ZN12_GLOBAL__N_117list_search_arrayEPcmm(char * first, unsigned long bytes_needed, unsigned long node_size)
__CPROVER_requires(g_arena_size <= (1ul<<40) && __CPROVER_is_fresh(g_arena, g_arena_size) && g_ns == node_size)
__CPROVER_requires(node_size >= 8 && node_size <= (1ul<<32) && bytes_needed <= (1ul<<40) && bytes_needed > node_size && (__CPROVER_same_object(first, g_arena) && __CPROVER_POINTER_OFFSET(first) + g_ns <= g_arena_size))
__CPROVER_assigns()
__CPROVER_ensures(__CPROVER_return_value.first == 0 ||
   ( (__CPROVER_same_object(__CPROVER_return_value.first, g_arena) && __CPROVER_POINTER_OFFSET(__CPROVER_return_value.first) + g_ns <= g_arena_size) && (__CPROVER_same_object(__CPROVER_return_value.last, g_arena) && __CPROVER_POINTER_OFFSET(__CPROVER_return_value.last) + g_ns <= g_arena_size)
  && ((unsigned long)(__CPROVER_return_value.last)) - ((unsigned long)(__CPROVER_return_value.first)) + node_size >= bytes_needed
  && ((unsigned long)(__CPROVER_return_value.last)) - ((unsigned long)(__CPROVER_return_value.first)) + node_size <  bytes_needed + node_size))
{
  struct interval i;
  (i.prev = ((void*)0));
  (i.first = first);
  (i.last = first);
  (i.next = f__ZN9foonathan6memory6detail13list_get_nextEPv(((void *)first)));
  unsigned long bytes_so_far = node_size;
  while (((_Bool)i.next))
  /*@LOOP@*/
  __CPROVER_assigns(i, bytes_so_far)
  __CPROVER_loop_invariant((__CPROVER_same_object(i.first, g_arena) && __CPROVER_POINTER_OFFSET(i.first) + g_ns <= g_arena_size) && (__CPROVER_same_object(i.last, g_arena) && __CPROVER_POINTER_OFFSET(i.last) + g_ns <= g_arena_size) && (i.next == 0 || (__CPROVER_same_object(i.next, g_arena) && __CPROVER_POINTER_OFFSET(i.next) + g_ns <= g_arena_size)) && ((unsigned long)(i.last)) >= ((unsigned long)(i.first)))
  __CPROVER_loop_invariant(bytes_so_far == ((unsigned long)(i.last)) - ((unsigned long)(i.first)) + node_size && bytes_so_far < bytes_needed)
  {
    if (((i.last + node_size) != i.next))
    {
      (i.prev = i.last);
      (i.first = i.next);
      (i.last = i.next);
      (i.next = f__ZN9foonathan6memory6detail13list_get_nextEPv(((void *)i.last)));
      (bytes_so_far = node_size);
    }
    else
    {
      char * new_next = f__ZN9foonathan6memory6detail13list_get_nextEPv(((void *)i.next));
      (i.last = i.next);
      (i.next = new_next);
      (bytes_so_far += node_size);
      if ((bytes_so_far >= bytes_needed))
        return i;
    }
  }
  return (struct interval){((void*)0), ((void*)0), ((void*)0), ((void*)0)};
}


unsigned long f__ZN9foonathan6memory6detail7get_intEPv(void * address)
{
  ;
  unsigned long res;
  memcpy(((void *)(&res)), address, sizeof(unsigned long));
  return res;
}

char * f__ZN9foonathan6memory6detail8from_intEm(unsigned long i)
{
  return ((char *)i);
}


void harness(void){ char* f; unsigned long b, n; f__ZN12_GLOBAL__N_117list_search_arrayEPcmm(f,b,n); }
