#include <foonathan/memory/iteration_allocator.hpp>
namespace verif {
struct block_alloc {
  int id;
  explicit block_alloc(std::size_t block_size);
  foonathan::memory::memory_block allocate_block();
  void deallocate_block(foonathan::memory::memory_block) noexcept;
  std::size_t next_block_size() const noexcept;
  block_alloc(block_alloc&&) noexcept;
  block_alloc& operator=(block_alloc&&) noexcept;
};
}
template class foonathan::memory::iteration_allocator<3, verif::block_alloc>;
