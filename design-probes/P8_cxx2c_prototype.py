#!/usr/bin/env python3
"""Scratch prototype (design-phase probe, NOT framework code): clang JSON AST -> C
for a closure of functions. Purpose: find out which JSON fields are missing / awkward."""
import json, re, sys

class Abort(Exception):
    pass

class TU:
    def __init__(self, path):
        self.root = json.load(open(path))
        self.byid = {}
        self.parent = {}
        self.defn = {}      # canonical id -> node with body
        self._index(self.root, None)
        # map declarations to definitions through previousDecl chains
        for nid, n in list(self.byid.items()):
            if n.get('kind') in ('FunctionDecl', 'CXXMethodDecl', 'CXXConstructorDecl', 'CXXDestructorDecl', 'CXXConversionDecl') and self.has_body(n):
                p = n
                while p is not None:
                    self.defn[p['id']] = n
                    p = self.byid.get(p.get('previousDecl')) if p.get('previousDecl') else None

    def _index(self, n, parent):
        if 'id' in n:
            # clang repeats referenced decls as stubs without 'inner'; keep the richest
            old = self.byid.get(n['id'])
            if old is None or ('inner' in n and 'inner' not in old) or ('loc' in n and 'loc' not in old):
                self.byid[n['id']] = n
            if parent is not None and n['id'] not in self.parent:
                self.parent[n['id']] = parent
        for c in n.get('inner', []):
            self._index(c, n)

    @staticmethod
    def has_body(n):
        return any(c.get('kind') == 'CompoundStmt' for c in n.get('inner', []))

    def class_of(self, fn):
        pid = fn.get('parentDeclContextId')
        if pid:
            return self.byid.get(pid)
        p = self.parent.get(fn['id'])
        while p is not None and p.get('kind') not in ('CXXRecordDecl', 'ClassTemplateSpecializationDecl'):
            p = self.parent.get(p.get('id')) if 'id' in p else None
        return p

    def find_fn(self, qualname_suffix, sig=None):
        res = []
        for n in self.defn.values():
            if n in res:
                continue
            if n.get('name') != qualname_suffix.split('::')[-1]:
                continue
            cls = self.class_of(n) if n['kind'] != 'FunctionDecl' else None
            if '::' in qualname_suffix:
                if not cls or cls.get('name') != qualname_suffix.split('::')[-2]:
                    continue
            if sig and n['type']['qualType'] != sig:
                continue
            res.append(n)
        return res


def ret_of(q):
    q = q.strip()
    changed = True
    while changed:
        changed = False
        for suf in (' noexcept', ' const', ' &', ' &&'):
            if q.endswith(suf):
                q = q[:-len(suf)].strip(); changed = True
    if ' -> ' in q and q.startswith('auto '):
        return q.split(' -> ')[-1]
    assert q.endswith(')'), q
    depth = 0
    for i in range(len(q) - 1, -1, -1):
        if q[i] == ')': depth += 1
        elif q[i] == '(':
            depth -= 1
            if depth == 0:
                return q[:i].strip()
    raise Abort('cannot parse function type ' + q)


def cname(s):
    return re.sub(r'[^A-Za-z0-9_]', '_', s)


class Emitter:
    def __init__(self, tu):
        self.tu = tu
        self.structs = {}      # struct name -> text
        self.recname = {}
        self.funcs = {}        # cname -> text
        self.protos = {}
        self.todo = []
        self.done = set()
        self.cur_fn = None
        self.ref_params = {}
        self.stats = {}

    # ---------- types ----------
    def ctype(self, t):
        q = t.get('desugaredQualType') or t.get('qualType')
        return self.ctype_s(q)

    def cdecl(self, t, name):
        q = (t.get('desugaredQualType') or t.get('qualType')).strip()
        m = re.match(r'^(.*?)\s*((\[\d+\])+)$', q)
        if m:
            return '%s %s%s' % (self.ctype_s(m.group(1)), name, m.group(2))
        return '%s %s' % (self.ctype_s(q), name)

    def ctype_s(self, q):
        q = q.strip()
        q = re.sub(r'\b(const|__restrict|volatile)\b', '', q).strip()
        q = re.sub(r'\s+', ' ', q)
        m = re.match(r'^(.*?)\s*(&&|&)$', q)
        if m:
            return self.ctype_s(m.group(1)) + ' *'
        m = re.match(r'^(.*?)\s*\*$', q)
        if m:
            return self.ctype_s(m.group(1)) + ' *'
        base = {
            'bool': '_Bool', 'void': 'void', 'char': 'char', 'unsigned char': 'unsigned char', 'int': 'int',
            'unsigned int': 'unsigned int', 'unsigned long': 'unsigned long', 'long': 'long',
            'unsigned long long': 'unsigned long long', 'std::size_t': 'unsigned long',
            'std::uintptr_t': 'unsigned long', 'std::nullptr_t': 'void *', 'unsigned short': 'unsigned short',
        }
        if q in base:
            return base[q]
        q2 = q.replace('(anonymous namespace)::', '').replace('foonathan::memory::detail::', '').replace('foonathan::memory::', '')
        q2 = re.sub(r'^(struct|class|enum) ', '', q2)
        simple = q2.split('::')[-1]
        for n in self.tu.byid.values():
            if n.get('kind') == 'EnumDecl' and n.get('name') == simple and 'inner' in n:
                u = n.get('fixedUnderlyingType', {}).get('qualType', 'int')
                return self.ctype_s(u)
        self.need_struct(q2)
        return 'struct ' + cname(q2)

    def is_pattern(self, n):
        p = self.tu.parent.get(n['id'])
        return n.get('kind') == 'CXXRecordDecl' and p is not None and p.get('kind') == 'ClassTemplateDecl'

    def need_struct(self, name, rec=None):
        simple = re.sub(r'<.*$', '', name).split('::')[-1]
        if name in self.structs:
            return
        if rec is None:
            cands = [n for n in self.tu.byid.values()
                     if n.get('kind') in ('CXXRecordDecl', 'ClassTemplateSpecializationDecl') and n.get('name') == simple
                     and n.get('completeDefinition') and not self.is_pattern(n) and not self.in_template(n)]
            if len(cands) != 1:
                raise Abort('record for type %r: %d candidates' % (name, len(cands)))
            rec = cands[0]
        self.structs[name] = None  # placeholder against recursion
        fields = []
        for b in rec.get('bases', []) or []:
            bt = self.ctype(b['type'])
            fields.append(f'  {bt} base_{cname(bt)};')
        for c in rec.get('inner', []):
            if c.get('kind') == 'FieldDecl':
                fields.append('  ' + self.cdecl(c['type'], c['name']) + ';')
        self.structs[name] = 'struct %s {\n%s\n};' % (cname(name), '\n'.join(fields) or '  char __empty;')
        self.recname[rec['id']] = name

    def in_template(self, n):
        p = self.tu.parent.get(n.get('id'))
        while p is not None:
            if p.get('kind') in ('ClassTemplateDecl', 'FunctionTemplateDecl', 'ClassTemplatePartialSpecializationDecl'):
                return True
            if p.get('kind') == 'ClassTemplateSpecializationDecl':
                return False
            p = self.tu.parent.get(p.get('id')) if 'id' in p else None
        return False

    # ---------- functions ----------
    def fn_cname(self, fn):
        m = fn.get('mangledName') or fn['name']
        if not m.startswith('_Z'):
            return fn['name']            # C linkage: libc / builtins, keep the name
        return 'f_' + cname(m)

    def is_clinkage(self, fn):
        return not (fn.get('mangledName') or fn['name']).startswith('_Z')

    def request(self, fn_id):
        d = self.tu.defn.get(fn_id)
        if d is None:
            n = self.tu.byid.get(fn_id)
            if n is None:
                raise Abort('unknown callee ' + str(fn_id))
            return n, False
        if d['id'] not in self.done:
            self.done.add(d['id'])
            self.todo.append(d)
        return d, True

    def params(self, fn):
        return [c for c in fn.get('inner', []) if c.get('kind') == 'ParmVarDecl']

    def signature(self, fn):
        q = fn['type']['qualType']
        ret = ret_of(q)
        is_member = fn['kind'] in ('CXXMethodDecl', 'CXXConstructorDecl', 'CXXDestructorDecl') and fn.get('storageClass') != 'static'
        ps = []
        if is_member:
            cls = self.tu.class_of(fn)
            self.need_struct(cls['name'], cls)
            ps.append('struct %s *self' % cname(cls['name']))
        for i, p in enumerate(self.params(fn)):
            ps.append('%s %s' % (self.ctype(p['type']), p.get('name') or 'p%d' % i))
        rett = 'void' if fn['kind'] in ('CXXConstructorDecl', 'CXXDestructorDecl') else self.ctype_s(ret)
        return '%s %s(%s)' % (rett, self.fn_cname(fn), ', '.join(ps) or 'void')

    def emit_fn(self, fn):
        self.cur_fn = fn
        body = [c for c in fn['inner'] if c.get('kind') == 'CompoundStmt'][0]
        pre = []
        if fn['kind'] == 'CXXConstructorDecl':
            for ci in fn['inner']:
                if ci.get('kind') == 'CXXCtorInitializer':
                    pre.append(self.ctor_init(ci))
        text = self.signature(fn) + '\n{\n' + ''.join('  ' + p + '\n' for p in pre) + self.stmt(body, 1, strip_braces=True) + '}\n'
        self.funcs[self.fn_cname(fn)] = text

    def ctor_init(self, ci):
        if 'anyInit' in ci:
            fld = ci['anyInit']['name']
            e = ci['inner'][0]
            return 'self->%s = %s;' % (fld, self.expr(e))
        if 'baseInit' in ci or ci.get('delegatingInit') is not None or True:
            # delegating ctor: call target ctor on self
            e = ci['inner'][0]
            if e.get('kind') == 'CXXConstructExpr':
                return self.construct_into('self', e) + ';'
            raise Abort('ctor init form ' + json.dumps({k: v for k, v in ci.items() if k != 'inner'}))

    # ---------- statements ----------
    def stmt(self, s, ind, strip_braces=False):
        I = '  ' * ind
        k = s['kind']
        self.stats[k] = self.stats.get(k, 0) + 1
        if k == 'CompoundStmt':
            inner = ''.join(self.stmt(c, ind + (0 if strip_braces else 1)) for c in s.get('inner', []))
            return inner if strip_braces else I + '{\n' + inner + I + '}\n'
        if k == 'NullStmt':
            return I + ';\n'
        if k == 'DeclStmt':
            out = ''
            for v in s['inner']:
                if v['kind'] != 'VarDecl':
                    raise Abort('decl kind ' + v['kind'])
                t = self.ctype(v['type'])
                if 'inner' in v and v.get('init'):
                    init = [c for c in v['inner'] if 'Comment' not in c['kind']][0]
                    ie = self.strip(init)
                    if ie['kind'] == 'CXXConstructExpr' and not ie.get('inner') and self.trivial_default(ie):
                        out += I + '%s %s;\n' % (t, v['name'])
                    elif ie['kind'] in ('CXXConstructExpr', 'CXXTemporaryObjectExpr') and not self.is_copy_elision(ie):
                        out += I + '%s %s;\n' % (t, v['name']) + I + self.construct_into('&' + v['name'], ie) + ';\n'
                    else:
                        out += I + '%s %s = %s;\n' % (t, v['name'], self.expr(init))
                else:
                    out += I + '%s %s;\n' % (t, v['name'])
            return out
        if k == 'IfStmt':
            c = s['inner']
            out = I + 'if (%s)\n' % self.expr(c[0]) + self.stmt_block(c[1], ind)
            if len(c) > 2:
                out += I + 'else\n' + self.stmt_block(c[2], ind)
            return out
        if k == 'ReturnStmt':
            if s.get('inner'):
                return I + 'return %s;\n' % self.expr(s['inner'][0])
            return I + 'return;\n'
        if k == 'ForStmt':
            init, _, cond, inc, body = s['inner']
            i_s = self.stmt(init, 0).strip() if init.get('kind') else ';'
            return I + '{ ' + i_s + '\n' + I + 'for (; %s; %s)\n' % (self.expr(cond) if cond.get('kind') else '', self.expr(inc) if inc.get('kind') else '') + I + '/*@LOOP@*/\n' + self.stmt_block(body, ind) + I + '}\n'
        if k == 'WhileStmt':
            cond, body = s['inner'][-2:]
            return I + 'while (%s)\n' % self.expr(cond) + I + '/*@LOOP@*/\n' + self.stmt_block(body, ind)
        if k == 'DoStmt':
            body, cond = s['inner']
            return I + 'do\n' + I + '/*@LOOP@*/\n' + self.stmt_block(body, ind) + I + 'while (%s);\n' % self.expr(cond)
        if k == 'CXXThrowExpr' or (k == 'ExprWithCleanups' and s['inner'][0]['kind'] == 'CXXThrowExpr'):
            th = s if k == 'CXXThrowExpr' else s['inner'][0]
            exn = self.strip(th['inner'][0])['type']['qualType'].split('::')[-1]
            rt = ret_of(self.cur_fn['type']['qualType'])
            return I + '{ __exc = EXC_%s; %s }  /* throw %s(...) : exception object ctor omitted in this prototype */\n' % (exn, 'return;' if rt == 'void' else 'return 0;', exn)
        # expression statement
        return I + self.expr(s) + ';\n'

    def stmt_block(self, s, ind):
        if s['kind'] == 'CompoundStmt':
            return self.stmt(s, ind)
        return self.stmt(s, ind + 1)

    # ---------- expressions ----------
    def strip(self, e):
        while e['kind'] in ('ExprWithCleanups', 'MaterializeTemporaryExpr', 'CXXBindTemporaryExpr', 'ParenExpr', 'ConstantExpr') or (e['kind'] == 'ImplicitCastExpr' and e.get('castKind') == 'NoOp'):
            e = e['inner'][0]
        return e

    def trivial_default(self, e):
        cls = e['type']['qualType'].replace('(anonymous namespace)::', '').split('::')[-1]
        for n in self.tu.byid.values():
            if n.get('kind') == 'CXXRecordDecl' and n.get('name') == cls and n.get('completeDefinition'):
                dd = n.get('definitionData', {})
                return bool(dd.get('defaultCtor', {}).get('trivial')) or dd.get('isAggregate', False) or not dd.get('hasUserDeclaredConstructor')
        return False

    def is_copy_elision(self, e):
        # T x = f();  shows up as CXXConstructExpr(move ctor, elidable) around the call
        return e.get('elidable') and len(e.get('inner', [])) == 1

    def is_ref(self, t):
        q = t.get('qualType', '')
        return q.endswith('&') or q.endswith('&&')

    def expr(self, e):
        k = e['kind']
        self.stats[k] = self.stats.get(k, 0) + 1
        if k in ('ExprWithCleanups', 'MaterializeTemporaryExpr', 'CXXBindTemporaryExpr', 'ConstantExpr', 'SubstNonTypeTemplateParmExpr'):
            return self.expr([c for c in e['inner'] if c.get('kind') != 'NonTypeTemplateParmDecl'][-1])
        if k == 'ParenExpr':
            return '(' + self.expr(e['inner'][0]) + ')'
        if k == 'ImplicitCastExpr':
            ck = e.get('castKind')
            s = self.expr(e['inner'][0])
            if ck in ('LValueToRValue', 'NoOp', 'FunctionToPointerDecay', 'ArrayToPointerDecay', 'NullToPointer'):
                return s
            if ck in ('BitCast', 'IntegralCast', 'IntegralToBoolean', 'PointerToBoolean', 'PointerToIntegral', 'IntegralToPointer'):
                return '((%s)%s)' % (self.ctype(e['type']), s)
            raise Abort('implicit cast ' + str(ck))
        if k in ('CXXStaticCastExpr', 'CXXReinterpretCastExpr', 'CStyleCastExpr', 'CXXFunctionalCastExpr', 'CXXConstCastExpr'):
            if e.get('castKind') == 'ToVoid':
                return '((void)%s)' % self.expr(e['inner'][0])
            return '((%s)%s)' % (self.ctype(e['type']), self.expr(e['inner'][0]))
        if k == 'IntegerLiteral':
            t = self.ctype(e['type'])
            suf = {'unsigned int': 'u', 'unsigned long': 'ul', 'long': 'l', 'unsigned long long': 'ull'}.get(t, '')
            return e['value'] + suf
        if k == 'CXXBoolLiteralExpr':
            return '1' if e['value'] else '0'
        if k == 'CXXNullPtrLiteralExpr':
            return '((void*)0)'
        if k == 'StringLiteral':
            return e['value']
        if k == 'CXXThisExpr':
            return 'self'
        if k == 'DeclRefExpr':
            r = e['referencedDecl']
            if r['kind'] in ('FunctionDecl', 'CXXMethodDecl'):
                d, has = self.request(r['id'])
                if not has and not self.is_clinkage(d):
                    self.protos[self.fn_cname(d)] = d
                return self.fn_cname(d)
            if r['kind'] in ('ParmVarDecl', 'VarDecl'):
                decl = self.tu.byid.get(r['id'], r)
                if self.is_ref(decl.get('type', r.get('type', {}))):
                    return '(*%s)' % r['name']
                return r['name']
            if r['kind'] == 'EnumConstantDecl':
                d = self.tu.byid.get(r['id'], r)
                def val(n):
                    if 'value' in n and n.get('kind') in ('ConstantExpr', 'IntegerLiteral'):
                        return n['value']
                    for c in n.get('inner', []):
                        v = val(c)
                        if v is not None:
                            return v
                v = val(d)
                if v is None:
                    raise Abort('enum constant without explicit value: ' + r['name'])
                return '%s /*%s*/' % (v, r['name'])
            raise Abort('declref to ' + r['kind'])
        if k == 'MemberExpr':
            base = e['inner'][0]
            b = self.expr(base)
            return '%s%s%s' % (b, '->' if e.get('isArrow') else '.', e['name'])
        if k == 'UnaryOperator':
            s = self.expr(e['inner'][0])
            return '(%s%s)' % (s, e['opcode']) if e.get('isPostfix') else '(%s%s)' % (e['opcode'], s)
        if k in ('BinaryOperator', 'CompoundAssignOperator'):
            return '(%s %s %s)' % (self.expr(e['inner'][0]), e['opcode'], self.expr(e['inner'][1]))
        if k == 'ConditionalOperator':
            a, b, c = e['inner']
            return '(%s ? %s : %s)' % (self.expr(a), self.expr(b), self.expr(c))
        if k == 'UnaryExprOrTypeTraitExpr':
            if 'argType' in e:
                return '%s(%s)' % (e['name'], self.ctype(e['argType']))
            return '%s(%s)' % (e['name'], self.expr(e['inner'][0]))
        if k == 'ArraySubscriptExpr':
            return '%s[%s]' % (self.expr(e['inner'][0]), self.expr(e['inner'][1]))
        if k == 'CallExpr':
            callee = e['inner'][0]
            args = e['inner'][1:]
            fn = self.callee_decl(callee)
            return '%s(%s)' % (self.expr(callee), ', '.join(self.args(fn, args)))
        if k == 'CXXMemberCallExpr':
            me = self.strip(e['inner'][0])
            if me['kind'] != 'MemberExpr':
                raise Abort('member call through ' + me['kind'])
            d, has = self.request(me['referencedMemberDecl'])
            if not has:
                self.protos[self.fn_cname(d)] = d
            obj = me['inner'][0]
            o = self.expr(obj)
            this = o if me.get('isArrow') else '&' + o
            return '%s(%s)' % (self.fn_cname(d), ', '.join([this] + self.args(d, e['inner'][1:])))
        if k == 'InitListExpr':
            return '(%s){%s}' % (self.ctype(e['type']), ', '.join(self.expr(c) for c in e.get('inner', [])))
        if k in ('CXXConstructExpr', 'CXXTemporaryObjectExpr'):
            if self.is_copy_elision(e) or (len(e.get('inner', [])) == 1 and 'ctorType' in e and re.search(r'\((const )?[^,]*&&?\)', e['ctorType']['qualType'])):
                # trivial copy/move of an aggregate value
                return self.expr(e['inner'][0])
            raise Abort('construct expr in value position: ' + e['type']['qualType'] + ' ' + e.get('ctorType', {}).get('qualType', ''))
        if k == 'CXXDefaultArgExpr':
            raise Abort('default arg (clang 14 json does not inline it)')
        raise Abort('expr kind ' + k)

    def callee_decl(self, callee):
        c = self.strip(callee)
        while c['kind'] == 'ImplicitCastExpr':
            c = c['inner'][0]
        if c['kind'] == 'DeclRefExpr':
            return self.tu.defn.get(c['referencedDecl']['id']) or self.tu.byid.get(c['referencedDecl']['id'])
        return None

    def args(self, fn, args):
        out = []
        ps = self.params(fn) if fn else []
        for i, a in enumerate(args):
            if a['kind'] == 'CXXDefaultArgExpr':
                init = [c for c in ps[i].get('inner', []) if 'Comment' not in c.get('kind', '')]
                if not init:
                    # definition may not repeat the default; look at previous declarations
                    q = self.tu.byid.get(fn.get('previousDecl')) if fn.get('previousDecl') else None
                    while q is not None and not init:
                        qp = self.params(q)
                        init = [c for c in qp[i].get('inner', []) if 'Comment' not in c.get('kind', '')]
                        q = self.tu.byid.get(q.get('previousDecl')) if q.get('previousDecl') else None
                if not init:
                    raise Abort('default argument not found for param %d of %s' % (i, fn.get('name')))
                a = init[0]
            s = self.expr(a)
            if i < len(ps) and self.is_ref(ps[i]['type']):
                s = '&' + s
            out.append(s)
        return out

    def construct_into(self, target, e):
        cls = e['type'].get('desugaredQualType') or e['type']['qualType']
        cls = re.sub(r'\bconst\b', '', cls).strip().replace('(anonymous namespace)::', '').replace('foonathan::memory::detail::', '').replace('foonathan::memory::', '')
        want = e['ctorType']['qualType']
        cands = [n for n in self.tu.defn.values() if n['kind'] == 'CXXConstructorDecl' and n['type']['qualType'] == want and (self.tu.class_of(n) or {}).get('name') == cls]
        if not cands:
            raise Abort('cannot resolve ctor %s %s' % (cls, want))
        d, _ = self.request(cands[0]['id'])
        return '%s(%s)' % (self.fn_cname(d), ', '.join([target] + self.args(d, e.get('inner', []))))

    def run(self, roots):
        for r in roots:
            self.request(r['id'])
        while self.todo:
            fn = self.todo.pop()
            self.emit_fn(fn)


def main():
    tu = TU(sys.argv[1])
    em = Emitter(tu)
    roots = []
    for spec in sys.argv[2:]:
        name, _, sig = spec.partition('@')
        fs = tu.find_fn(name, sig or None)
        if len(fs) != 1:
            raise Abort('root %s matches %d functions: %s' % (spec, len(fs), [f['type']['qualType'] for f in fs]))
        roots += fs
    em.run(roots)
    print('#include <stddef.h>\n#include <stdint.h>\n#include <string.h>\n#include <stdlib.h>')
    for s in em.structs.values():
        print(s)
    for n, d in em.protos.items():
        print(em.signature(d) + ';  /* no body in TU */')
    for n, t in em.funcs.items():
        print(t.split('\n')[0] + ';')
    for n, t in em.funcs.items():
        print(t)
    sys.stderr.write('node kinds: %s\n' % sorted(em.stats.items(), key=lambda x: -x[1]))

if __name__ == '__main__':
    try:
        main()
    except Abort as a:
        sys.stderr.write('ABORT: %s\n' % a)
        sys.exit(2)
