#include <stddef.h>
#include <stdint.h>
#include <limits.h>
#define max_alignment 16ul
static inline _Bool is_valid_alignment(size_t a){ return a && (a & (a-1))==0u; }

size_t round_up(size_t size, size_t alignment)
__CPROVER_requires(is_valid_alignment(alignment) && size <= SIZE_MAX - (alignment - 1))
__CPROVER_ensures(__CPROVER_return_value >= size && __CPROVER_return_value - size < alignment && (__CPROVER_return_value & (alignment-1)) == 0)
__CPROVER_assigns()
{ return (size + alignment - 1) & ~(alignment - 1); }

size_t align_offset(uintptr_t address, size_t alignment)
__CPROVER_requires(is_valid_alignment(alignment))
__CPROVER_ensures(__CPROVER_return_value < alignment && ((address + __CPROVER_return_value) & (alignment-1)) == 0)
__CPROVER_assigns()
{ size_t misaligned = address & (alignment - 1); return misaligned != 0 ? (alignment - misaligned) : 0; }

size_t alignment_for(size_t size)
__CPROVER_requires(size > 0)
__CPROVER_ensures(is_valid_alignment(__CPROVER_return_value) && __CPROVER_return_value <= max_alignment && (size & (__CPROVER_return_value-1))==0 && (__CPROVER_return_value == max_alignment || (size & __CPROVER_return_value) != 0))
__CPROVER_assigns()
{ size_t l = size & ~(size - 1); return l > max_alignment ? max_alignment : l; }

size_t ilog2_base(uint64_t x)
__CPROVER_requires(x > 0)
__CPROVER_ensures(__CPROVER_return_value >= 1 && __CPROVER_return_value <= 64 && (x >> (__CPROVER_return_value-1)) == 1)
__CPROVER_assigns()
{ unsigned long long value = x; return sizeof(value) * CHAR_BIT - (unsigned)(__builtin_clzll(value)); }

size_t ilog2_ceil(uint64_t x)
__CPROVER_requires(x > 0)
__CPROVER_ensures(__CPROVER_return_value <= 64)
__CPROVER_ensures(__CPROVER_return_value == 64 || x <= ((uint64_t)1 << __CPROVER_return_value))
__CPROVER_ensures(__CPROVER_return_value == 0 || x > ((uint64_t)1 << (__CPROVER_return_value-1)))
__CPROVER_assigns()
{ return ilog2_base(x) - (size_t)((x & (x-1))==0); }

void h_round_up(void){ size_t a,b; round_up(a,b);} 
void h_align_offset(void){ uintptr_t a; size_t b; align_offset(a,b);} 
void h_alignment_for(void){ size_t a; alignment_for(a);} 
void h_ilog2_base(void){ uint64_t a; ilog2_base(a);} 
void h_ilog2_ceil(void){ uint64_t a; ilog2_ceil(a);} 
