#include <stddef.h>
#include <stdint.h>
#include <string.h>

static inline uintptr_t get_int(void* address){ uintptr_t res; memcpy(&res, address, sizeof(uintptr_t)); return res; }
static inline void set_int(void* address, uintptr_t i){ memcpy(address, &i, sizeof(uintptr_t)); }
static inline uintptr_t to_int(char* p){ return (uintptr_t)p; }
static inline char* from_int(uintptr_t i){ return (char*)i; }
static inline char* xor_list_get_other(void* address, char* prev_or_next){ return from_int(get_int(address) ^ to_int(prev_or_next)); }
static inline void xor_list_set(void* address, char* prev, char* next){ set_int(address, to_int(prev) ^ to_int(next)); }
static inline void xor_list_change(void* address, char* old_ptr, char* new_ptr){ __typeof__(xor_list_get_other(address, old_ptr)) other = xor_list_get_other(address, old_ptr); xor_list_set(address, other, new_ptr); }

struct ofl { uintptr_t begin_proxy_, end_proxy_; size_t node_size_, capacity_; char *last_dealloc_, *last_dealloc_prev_; };
static inline char* begin_node(struct ofl* self){ void* mem=&self->begin_proxy_; return (char*)mem; }
static inline char* end_node(struct ofl* self){ void* mem=&self->end_proxy_; return (char*)mem; }

/* ghost params via globals */
char *g_node, *g_next;

void* ofl_allocate(struct ofl* self)
__CPROVER_requires(__CPROVER_is_fresh(self, sizeof(*self)))
__CPROVER_requires(self->capacity_ > 0 && self->node_size_ >= 8 && self->node_size_ <= 4096)
__CPROVER_requires(__CPROVER_is_fresh(g_node, self->node_size_))
/* first node is g_node, its next is g_next; g_next either end proxy or fresh node */
__CPROVER_requires(self->begin_proxy_ == (uintptr_t)g_node)
__CPROVER_requires(g_next == (char*)&self->end_proxy_ || __CPROVER_is_fresh(g_next, self->node_size_))
__CPROVER_requires(get_int(g_node) == ((uintptr_t)&self->begin_proxy_ ^ (uintptr_t)g_next))
__CPROVER_requires(self->last_dealloc_ != g_node && self->last_dealloc_prev_ != g_node)
__CPROVER_assigns(self->begin_proxy_, self->end_proxy_, self->capacity_, self->last_dealloc_, self->last_dealloc_prev_, __CPROVER_object_upto(g_next, 8))
__CPROVER_ensures(__CPROVER_return_value == g_node)
__CPROVER_ensures(self->capacity_ == __CPROVER_old(self->capacity_) - 1)
__CPROVER_ensures(self->begin_proxy_ == (uintptr_t)g_next)
{
    char* prev = begin_node(self);
    char* node = xor_list_get_other(prev, NULL);
    char* next = xor_list_get_other(node, prev);
    xor_list_set(prev, NULL, next);
    xor_list_change(next, node, prev);
    --self->capacity_;
    if (node == self->last_dealloc_) { self->last_dealloc_ = next; }
    else if (node == self->last_dealloc_prev_) { self->last_dealloc_prev_ = prev; }
    return node;
}
void harness(void){ struct ofl* s; ofl_allocate(s); }
