#include <foonathan/memory/memory_pool_collection.hpp>
#include <foonathan/memory/allocator_traits.hpp>
#include <cstdio>
#include <cstdint>
using namespace foonathan::memory;
int main(){
  using coll = memory_pool_collection<node_pool, identity_buckets>;
  coll c(64, 4096);
  using ct = composable_allocator_traits<coll>;
  int bad=0;
  // warm: one 8-byte node so the next ones sit at 8-byte stride
  for(int i=0;i<8;i++){ void* p = ct::try_allocate_node(c, 8, 16); std::printf("try_allocate_node(8, align 16) -> %p %s\n", p, (reinterpret_cast<std::uintptr_t>(p)%16)?"MISALIGNED":"ok"); bad += (reinterpret_cast<std::uintptr_t>(p)%16)!=0; }
  try { void* q = allocator_traits<coll>::allocate_node(c, 8, 16); std::printf("throwing path returned %p\n", q);} catch(std::bad_alloc& e){ std::printf("throwing path: %s\n", e.what()); }
  return bad?1:0;
}
