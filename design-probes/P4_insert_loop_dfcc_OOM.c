#include <stddef.h>
#include <stdint.h>
#include <string.h>
static inline void set_int(void* address, uintptr_t i){ memcpy(address, &i, sizeof(uintptr_t)); }
static inline void list_set_next(void* a, char* p){ set_int(a,(uintptr_t)p); }
struct fl { char* first_; size_t node_size_, capacity_; };
#ifndef MAXSZ
#define MAXSZ 64
#endif
void insert_impl(struct fl* self, void* mem, size_t size)
__CPROVER_requires(__CPROVER_is_fresh(self, sizeof(*self)))
__CPROVER_requires(self->node_size_ >= 8 && size >= self->node_size_ && size <= MAXSZ)
__CPROVER_requires(__CPROVER_is_fresh(mem, size))
__CPROVER_requires(self->capacity_ <= SIZE_MAX - MAXSZ)
__CPROVER_assigns(self->first_, self->capacity_, __CPROVER_object_upto(mem, size))
__CPROVER_ensures(self->capacity_ == __CPROVER_old(self->capacity_) + size / self->node_size_)
__CPROVER_ensures(self->first_ == mem)
{
    size_t no_nodes = size / self->node_size_;
    char* cur = (char*)mem;
    for (size_t i = 0u; i != no_nodes - 1; ++i)
    __CPROVER_assigns(i, cur, __CPROVER_object_upto(mem, size))
    __CPROVER_loop_invariant(i <= no_nodes - 1 && __CPROVER_same_object(cur, mem) && __CPROVER_POINTER_OFFSET(cur) == i * self->node_size_)
    {
        list_set_next(cur, cur + self->node_size_);
        cur += self->node_size_;
    }
    list_set_next(cur, self->first_);
    self->first_ = (char*)mem;
    self->capacity_ += no_nodes;
}
void harness(void){ struct fl* s; void* m; size_t sz; insert_impl(s,m,sz); }
