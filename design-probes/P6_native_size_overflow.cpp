#include <foonathan/memory/memory_stack.hpp>
#include <foonathan/memory/static_allocator.hpp>
#include <foonathan/memory/allocator_traits.hpp>
#include <cstdio>
using namespace foonathan::memory;
int main(){
  static_allocator_storage<4096> st; static_allocator a(st);
  void* p0 = a.allocate_node(1,1);
  try { void* p = a.allocate_node(std::size_t(-1)-6, 16); std::printf("static_allocator returned %p for huge size (p0=%p)\n", p, p0);} catch(std::bad_alloc& e){ std::printf("static threw: %s\n", e.what()); }
  memory_stack<> s(4096);
  s.allocate(1,1);
  try { void* p = allocator_traits<memory_stack<>>::allocate_node(s, std::size_t(-1)-6, 16); std::printf("memory_stack returned %p for huge size\n", p);} catch(std::bad_alloc& e){ std::printf("stack threw: %s\n", e.what()); }
}
