#include <stddef.h>
/* ghosts */
int __exc; _Bool mutex_held; unsigned leaf_calls; size_t leaf_last_size, leaf_last_align; void* leaf_last_ret;
struct leaf { int id; };
struct mtx { int dummy; };
struct storage { struct leaf alloc; struct mtx m; };

void mtx_lock(struct mtx* self)
__CPROVER_requires(!mutex_held) __CPROVER_assigns(mutex_held) __CPROVER_ensures(mutex_held);
void mtx_unlock(struct mtx* self)
__CPROVER_requires(mutex_held) __CPROVER_assigns(mutex_held) __CPROVER_ensures(!mutex_held);
/* abstract leaf: may throw (sets __exc) or returns non-null */
void* leaf_allocate_node(struct leaf* self, size_t size, size_t alignment)
__CPROVER_requires(mutex_held && __exc == 0)
__CPROVER_assigns(__exc, leaf_calls, leaf_last_size, leaf_last_align, leaf_last_ret)
__CPROVER_ensures(leaf_calls == __CPROVER_old(leaf_calls) + 1 && leaf_last_size == size && leaf_last_align == alignment)
__CPROVER_ensures((__exc != 0) || (__CPROVER_return_value != 0 && leaf_last_ret == __CPROVER_return_value));

/* what cxx2c would emit for allocator_storage::allocate_node with lock_guard RAII + exception edge */
void* storage_allocate_node(struct storage* self, size_t size, size_t alignment)
__CPROVER_requires(__CPROVER_is_fresh(self, sizeof(*self)) && !mutex_held && __exc == 0)
__CPROVER_assigns(__exc, mutex_held, leaf_calls, leaf_last_size, leaf_last_align, leaf_last_ret)
__CPROVER_ensures(!mutex_held)
__CPROVER_ensures(leaf_calls == __CPROVER_old(leaf_calls) + 1 && leaf_last_size >= size && leaf_last_align >= alignment)
__CPROVER_ensures(__exc != 0 || (__CPROVER_return_value != 0 && __CPROVER_return_value == leaf_last_ret))
{
    void* __ret = 0;
    struct mtx* lock__M_device = &self->m;      /* std::lock_guard ctor */
    mtx_lock(lock__M_device);
    struct leaf* alloc = &self->alloc;
    __ret = leaf_allocate_node(alloc, size, alignment);
#ifndef MUTANT
    if (__exc) goto unwind_lock;
#else
    if (__exc) return 0;                         /* mutant: forgets the guard on the exceptional edge */
#endif
unwind_lock:
    mtx_unlock(lock__M_device);                  /* std::lock_guard dtor */
    return __ret;
}
void harness(void){ struct storage* s; size_t a,b; storage_allocate_node(s,a,b); }
