#include <stddef.h>
#include <stdint.h>
#include <string.h>
static inline uintptr_t get_int(void* address){ uintptr_t res; memcpy(&res, address, sizeof(uintptr_t)); return res; }
static inline void set_int(void* address, uintptr_t i){ memcpy(address, &i, sizeof(uintptr_t)); }
static inline char* list_get_next(void* a){ return (char*)get_int(a); }
static inline void list_set_next(void* a, char* p){ set_int(a,(uintptr_t)p); }
struct fl { char* first_; size_t node_size_, capacity_; };
size_t g_k;
void debug_fill(void* memory, size_t size, unsigned char m)
__CPROVER_requires(size == 0 || __CPROVER_w_ok(memory, size))
__CPROVER_assigns(__CPROVER_object_upto(memory, size))
__CPROVER_ensures(g_k < size ==> ((unsigned char*)memory)[g_k] == m)
;
void* debug_fill_new(void* memory, size_t node_size, size_t fence_size)
{
    fence_size = 0u;
    char* mem = (char*)memory;
    debug_fill(mem, fence_size, 0xFD);
    mem += fence_size;
    debug_fill(mem, node_size, 0xCD);
    debug_fill(mem + node_size, fence_size, 0xFD);
    return mem;
}
void* fl_allocate(struct fl* self)
__CPROVER_requires(__CPROVER_is_fresh(self, sizeof(*self)))
__CPROVER_requires(self->capacity_ > 0 && self->node_size_ >= 8 && self->node_size_ <= 65536)
__CPROVER_requires(__CPROVER_is_fresh(self->first_, self->node_size_))
__CPROVER_assigns(self->first_, self->capacity_, __CPROVER_object_upto(self->first_, self->node_size_))
__CPROVER_ensures(__CPROVER_return_value == __CPROVER_old(self->first_))
__CPROVER_ensures(self->first_ == __CPROVER_old(*(char**)self->first_))
__CPROVER_ensures(self->capacity_ == __CPROVER_old(self->capacity_) - 1)
__CPROVER_ensures(g_k < self->node_size_ ==> ((unsigned char*)__CPROVER_return_value)[g_k] == 0xCD)
{
    --self->capacity_;
    char* mem = self->first_;
    self->first_ = list_get_next(self->first_);
    return debug_fill_new(mem, self->node_size_, 0);
}
void harness(void){ struct fl* s; fl_allocate(s); }
