#!/usr/bin/env python3
"""cxx2c: mechanical extraction of C++ function bodies (clang JSON AST) to C for CBMC.

One generic AST-driven translator, no per-function rules.  Anything outside the supported
subset raises Abort (the check then exits 2, 'extraction break').  What is dropped is listed
in DESIGN.md section 4.
"""
import json, re, sys
from tu import TU, Abort, sanitize, FUNC_KINDS, REC_KINDS

BASE_TYPES = {
    'bool': '_Bool', 'void': 'void', 'char': 'char', 'signed char': 'signed char', 'unsigned char': 'unsigned char',
    'short': 'short', 'unsigned short': 'unsigned short', 'int': 'int', 'unsigned int': 'unsigned int',
    'unsigned': 'unsigned int', 'long': 'long', 'unsigned long': 'unsigned long', 'long long': 'long long',
    'unsigned long long': 'unsigned long long', 'std::size_t': 'unsigned long', 'size_t': 'unsigned long',
    'std::uintptr_t': 'unsigned long', 'uintptr_t': 'unsigned long', 'std::ptrdiff_t': 'long', 'ptrdiff_t': 'long',
    'std::nullptr_t': 'void *', 'nullptr_t': 'void *', 'std::uint64_t': 'unsigned long', 'uint64_t': 'unsigned long',
    'std::max_align_t': 'max_align_t', 'max_align_t': 'max_align_t', 'double': 'double', 'float': 'float',
    'long double': 'long double', 'std::uint32_t': 'unsigned int', 'std::int64_t': 'long',
    'std::true_type': 'struct std__integral_constant_bool_1', 'std::false_type': 'struct std__integral_constant_bool_0',
}
TRANSPARENT = ('ExprWithCleanups', 'MaterializeTemporaryExpr', 'CXXBindTemporaryExpr', 'ConstantExpr',
               'SubstNonTypeTemplateParmExpr', 'ParenExpr')


def undecay(q):
    """std::decay<T &>::type of a class type, printed unresolved inside a template argument list: it is T"""
    return re.sub(r'(?:typename\s+)?std::decay<\s*([\w:]+)\s*&{0,2}\s*>::type', r'\1', q)


def split_top(s, sep=','):
    out, depth, cur = [], 0, ''
    for ch in s:
        if ch in '<([':
            depth += 1
        elif ch in '>)]':
            depth -= 1
        if ch == sep and depth == 0:
            out.append(cur.strip()); cur = ''
        else:
            cur += ch
    if cur.strip():
        out.append(cur.strip())
    return out


def fn_type_parts(q):
    """'R (A, B) const noexcept' -> (R, [A,B], quals)"""
    q = q.strip()
    m = re.search(r'\)\s*((?:const|noexcept|volatile|&&|&|\s|noexcept\([^)]*\))*)\s*(->\s*(.*))?$', q)
    if not m:
        raise Abort('cannot parse function type ' + q)
    quals = m.group(1)
    close = m.start()
    depth = 0
    for i in range(close, -1, -1):
        if q[i] == ')':
            depth += 1
        elif q[i] == '(':
            depth -= 1
            if depth == 0:
                ret = q[:i].strip()
                args = q[i + 1:close]
                if m.group(3):
                    ret = m.group(3).strip()
                return ret, split_top(args), quals
    raise Abort('cannot parse function type ' + q)


class Scope:
    def __init__(self, kind):
        self.kind = kind          # 'fn' | 'block' | 'loop'
        self.dtors = []           # C statements destroying constructed locals, in construction order
        self.exc_only = []        # destructor calls that run on exceptional exits only (object of a delegating constructor)


class Emitter:
    def __init__(self, tu, abstract=(), opts=None):
        self.tu = tu
        self.abstract = set(abstract)     # C names whose bodies are NOT translated (declared with contract only)
        self.opts = opts or {}
        self.structs = {}                 # rec id -> (cname, text | None)
        self.struct_order = []
        self.enums = {}
        self.globals = {}                 # var id -> text
        self.global_order = []
        self.funcs = {}                   # cname -> dict(text=, decl=, loops=, node=, calls=, stats=)
        self.func_order = []
        self.protos = {}                  # cname -> decl node   (no body in TU or abstract)
        self.todo = []
        self.requested = set()
        self.rec_index = None
        self.closures = {}                # lambda record id -> info
        self.global_inits = []
        self.extra_protos = {}
        self.opaque = set()
        self.tmp_n = 0
        self.typedefs_needed = set()
        self.need_exc = False
        self.exc_classes = {}
        self.cur_init_field = None

    # ================================================================== records / types
    def records(self):
        if self.rec_index is None:
            idx = {}
            for nid, n in self.tu.byid.items():
                if n.get('kind') in REC_KINDS and n.get('completeDefinition') and n.get('name') \
                        and not self.tu.is_template_pattern(n):
                    idx.setdefault(n['name'], []).append(n)
            self.rec_index = idx
        return self.rec_index

    def rec_by_name(self, q, depth_guard=0):
        """resolve a printed record type to a record decl (simple-name match among instantiated records)"""
        q0 = q
        q = re.sub(r'\b(const|volatile|struct|class)\b', '', q).strip()
        q = undecay(q)
        if q.startswith('(lambda at '):
            c = self.tu.lambda_by_loc(q)
            if c is None:
                raise Abort('lambda type by name: ' + q)
            return c
        # strip template args to get the simple name
        depth, base = 0, ''
        for ch in q:
            if ch == '<':
                depth += 1
            elif ch == '>':
                depth -= 1
            elif depth == 0:
                base += ch
        simple = base.split('::')[-1].strip()
        cands = self.records().get(simple, [])
        if len(cands) > 1:
            # prefer exact sanitized name match on the full printed type
            want = sanitize(q)
            ex = [c for c in cands if self.tu.scope_name(c) == want or self.tu.scope_name(c).replace('std__', '') == want]
            if len(ex) >= 1 and len(set(self.tu.scope_name(c) for c in ex)) == 1:
                return ex[0]
            # nested-name qualifier: outer::simple
            outer = base.split('::')[-2].strip() if '::' in base else None
            if outer:
                ex = [c for c in cands if (self.tu.semantic_parent(c) or {}).get('name') == outer]
                if len(ex) == 1:
                    return ex[0]
                if len(ex) > 1:
                    cands = ex
            # template args textual match
            ex = [c for c in cands if sanitize(q).endswith(self.tu.scope_name(c).split('__')[-1])]
            if len(ex) == 1:
                return ex[0]
            # argument-wise match with constants (constexpr variables, true/false) substituted by their values
            m = re.search(r'<(.*)>\s*$', q)
            if m:
                want_args = [self.norm_targ(a) for a in split_top(m.group(1))]
                ex = [c for c in cands if [self.norm_targ(a) for a in self.tu.targs(c)] == want_args]
                if len(ex) >= 1 and len(set(self.tu.scope_name(c) for c in ex)) == 1:
                    return ex[0]
            # identical definitions reached through different ids (same name & args) -> first
            names = set(self.tu.scope_name(c) for c in cands)
            if len(names) == 1:
                return cands[0]
        if len(cands) == 0 and simple and depth_guard < 4:
            # type alias / typedef: resolve through the alias declarations of that name
            targets = set()
            for n in self.alias_index().get(simple, ()):
                t = n.get('type', {})
                targets.add(t.get('desugaredQualType') or t.get('qualType'))
            targets.discard(None)
            if len(targets) == 1:
                return self.rec_by_name(targets.pop(), depth_guard + 1)
            if len(targets) > 1 and '::' in base:
                # qualified alias  Outer<...>::alias : resolve the qualifier first, then the alias inside that record
                d, cut = 0, None
                for i in range(len(q) - 1, 0, -1):
                    if q[i] == '>':
                        d += 1
                    elif q[i] == '<':
                        d -= 1
                    elif d == 0 and q[i - 1:i + 1] == '::':
                        cut = i - 1
                        break
                if cut:
                    outer = self.rec_by_name(q[:cut], depth_guard + 1)
                    for c in outer.get('inner', ()):
                        if c.get('kind') in ('TypeAliasDecl', 'TypedefDecl') and c.get('name') == simple:
                            t = c.get('type', {})
                            return self.rec_by_name(t.get('desugaredQualType') or t.get('qualType'), depth_guard + 1)
        if len(cands) != 1:
            raise Abort('record for type %r: %d candidates %s' % (q0, len(cands), [self.tu.scope_name(c) for c in cands][:6]))
        return cands[0]

    def alias_target(self, q):
        """printed type that is a typedef / alias name -> the aliased type string (or None)"""
        q = undecay(q)
        q = re.sub(r'\b(const|volatile|struct|class|typename)\b', '', q).strip()
        depth, base = 0, ''
        for ch in q:
            if ch == '<':
                depth += 1
            elif ch == '>':
                depth -= 1
            elif depth == 0:
                base += ch
        simple = base.split('::')[-1].strip()
        if not re.match(r'^[A-Za-z_]\w*$', simple):
            return None
        cands = self.alias_index().get(simple, ())
        targets = set((n['type'].get('desugaredQualType') or n['type'].get('qualType')) for n in cands)
        targets.discard(None)
        if len(targets) == 1:
            return targets.pop()
        if not targets and q.endswith('>') and '<' in q:
            # alias TEMPLATE  name<args...> : substitute the arguments into the aliased type of the (unique) pattern
            pats = [n for n in self.tu.byid.values() if n.get('kind') == 'TypeAliasTemplateDecl' and n.get('name') == simple]
            args = split_top(q[q.index('<') + 1:-1])
            outs = set()
            for pat in pats:
                parms = [c.get('name') for c in pat.get('inner', ()) if c.get('kind') == 'TemplateTypeParmDecl']
                al = [c for c in pat.get('inner', ()) if c.get('kind') == 'TypeAliasDecl']
                if len(parms) != len(args) or None in parms or len(al) != 1:
                    continue
                t = al[0]['type'].get('qualType')
                for pn, a in zip(parms, args):
                    t = re.sub(r'\b%s\b' % re.escape(pn), a.strip(), t)
                outs.add(t)
            if len(outs) == 1:
                return outs.pop()
        if len(targets) > 1 and '::' in base:
            d, cut = 0, None
            for i in range(len(q) - 1, 0, -1):
                if q[i] == '>':
                    d += 1
                elif q[i] == '<':
                    d -= 1
                elif d == 0 and q[i - 1:i + 1] == '::':
                    cut = i - 1
                    break
            if cut:
                try:
                    outer = self.rec_by_name(q[:cut], 1)
                except Abort:
                    return None
                for c in outer.get('inner', ()):
                    if c.get('kind') in ('TypeAliasDecl', 'TypedefDecl') and c.get('name') == simple:
                        return c['type'].get('desugaredQualType') or c['type'].get('qualType')
        return None

    def alias_index(self):
        if not hasattr(self, '_alias_index'):
            idx = {}
            for nid, n in self.tu.byid.items():
                if n.get('kind') in ('TypeAliasDecl', 'TypedefDecl') and n.get('name') and not self.tu.is_template_pattern(n):
                    idx.setdefault(n['name'], []).append(n)
            self._alias_index = idx
        return self._alias_index

    def norm_targ(self, a):
        a = a.strip()
        if a in ('true', '-1'):
            return '1'
        if a == 'false':
            return '0'
        simple = a.split('::')[-1]
        if re.match(r'^[A-Za-z_]\w*$', simple):
            for n in self.const_vars().get(simple, ()):
                v = self.const_value(n)
                if v is not None:
                    return '1' if v in ('true', '-1') else ('0' if v == 'false' else str(v))
        return sanitize(a)

    def const_vars(self):
        if not hasattr(self, '_const_vars'):
            idx = {}
            for nid, n in self.tu.byid.items():
                if n.get('kind') == 'VarDecl' and n.get('constexpr') and n.get('init') and n.get('name'):
                    idx.setdefault(n['name'], []).append(n)
            self._const_vars = idx
        return self._const_vars

    def rec_cname(self, rec):
        return self.tu.scope_name(rec)

    def struct_of(self, rec):
        """ensure struct definition for record decl; returns 'struct X'"""
        if rec.get('definitionData', {}).get('isLambda'):
            rec = self.tu.lambda_canon(rec)
        rid = rec['id']
        if rid not in self.structs:
            cn = self.rec_cname(rec)
            self.structs[rid] = [cn, None]
            fields = []
            for b in rec.get('bases', []) or []:
                brec = self.rec_by_name(b['type'].get('desugaredQualType') or b['type']['qualType'])
                fields.append('  %s %s;' % (self.struct_of(brec), self.base_member(brec)))
            for c in rec.get('inner', ()):
                if c.get('kind') == 'FieldDecl':
                    nm = c.get('name') or ('__unnamed_%s' % c['id'][-4:])
                    try:
                        fields.append('  ' + self.cdecl(c['type'], nm) + ';')
                    except Abort as a:
                        fields.append('  /* field %s omitted: %s */' % (nm, str(a)[:80]))
            if rec.get('definitionData', {}).get('isLambda'):
                fields = self.closure_fields(rec)
            self.structs[rid][1] = 'struct %s {\n%s\n};' % (cn, '\n'.join(fields) or '  char __empty;')
            self.struct_order.append(rid)
        return 'struct ' + self.structs[rid][0]

    def base_member(self, brec):
        return 'base_' + self.rec_cname(brec)

    def enum_underlying(self, q):
        simple = q.split('::')[-1]
        for n in self.tu.byid.values():
            if n.get('kind') == 'EnumDecl' and n.get('name') == simple and 'inner' in n:
                return n.get('fixedUnderlyingType', {}).get('qualType', 'int')
        return None

    def ctype(self, t):
        q = t.get('desugaredQualType') or t.get('qualType')
        try:
            return self.ctype_s(q)
        except Abort:
            if t.get('desugaredQualType') and t.get('qualType') != q:
                return self.ctype_s(t['qualType'])
            raise

    def cdecl(self, t, name):
        q = (t.get('desugaredQualType') or t.get('qualType')).strip()
        return self.cdecl_s(q, name)

    def cdecl_s(self, q, name):
        q = q.strip()
        m = re.match(r'^(.*?)\s*((\[\d+\])+)$', q)
        if m:
            return '%s %s%s' % (self.ctype_s(m.group(1)), name, m.group(2))
        m = re.match(r'^(.*?)\s*\(\*\)\s*\((.*)\)(\s*noexcept)?$', q)
        if m:
            args = [self.ctype_s(a) for a in split_top(m.group(2))] or ['void']
            return '%s (*%s)(%s)' % (self.ctype_s(m.group(1)), name, ', '.join(args))
        return '%s %s' % (self.ctype_s(q), name)

    def ctype_s(self, q, ptr=False):
        q = undecay(q.strip())
        q = re.sub(r'\b(const|__restrict|volatile|typename)\b', '', q).strip()
        q = re.sub(r'\s+', ' ', q)
        if q in BASE_TYPES:
            if 'max_align_t' in q:
                pass
            return BASE_TYPES[q]
        m = re.match(r'^(.*?)\s*(&&|&)$', q)
        if m:
            return self.ctype_s(m.group(1), ptr=True) + ' *'
        m = re.match(r'^(.*?)\s*\*$', q)
        if m:
            inner = m.group(1).strip()
            if inner.endswith(')') and '(' in inner and not inner.endswith('>'):
                # pointer to function written 'R (A)' *
                return 'void *'
            return self.ctype_s(inner, ptr=True) + ' *'
        m = re.match(r'^(.*?)\s*\(\*\)\s*\((.*)\)(\s*noexcept)?$', q)
        if m:
            return 'void *'      # function pointers are only stored/compared; calls through them abort
        m = re.match(r'^std::atomic<(.*)>$', q)
        if m:
            return self.ctype_s(m.group(1))
        m = re.match(r'^(?:std::)?enable_if<(.*)>::type$', q) or re.match(r'^(?:std::)?enable_if_t<(.*)>$', q)
        if m:
            a = split_top(m.group(1))
            return 'void' if len(a) == 1 else self.ctype_s(a[1], ptr)
        m = re.match(r'^std::integral_constant<bool, (true|1)>$', q)
        if m:
            return 'struct std__integral_constant_bool_1'
        m = re.match(r'^std::integral_constant<bool, (false|0)>$', q)
        if m:
            return 'struct std__integral_constant_bool_0'
        q1 = re.sub(r'^(struct|class|enum) ', '', q)
        u = None
        if '<' not in q1:
            u = self.enum_underlying(q1)
        if u:
            return self.ctype_s(u)
        try:
            rec = self.rec_by_name(q1)
        except Abort as a:
            if '0 candidates' in str(a):
                t = self.alias_target(q1)
                if t is not None and t.strip() != q1:
                    return self.ctype_s(t, ptr)
            if ptr and '0 candidates' in str(a):
                # incomplete (forward-declared) class used through a pointer/reference only
                cn = sanitize(q1)
                self.opaque.add(cn)
                return 'struct ' + cn
            raise
        return self.struct_of(rec)

    def rec_of_type(self, t):
        """record decl for a by-value record type, or None for scalars/pointers"""
        q = (t.get('desugaredQualType') or t.get('qualType')).strip()
        q = re.sub(r'\b(const|volatile)\b', '', q).strip()
        if q.endswith('*') or q.endswith('&') or q in BASE_TYPES or q.endswith(']') or q.endswith(')'):
            return None
        if re.match(r'^std::(atomic|integral_constant)<', q):
            return None
        if '<' not in q and self.enum_underlying(q):
            return None
        try:
            return self.rec_by_name(q)
        except Abort:
            if t.get('desugaredQualType') and t['qualType'] != q:
                try:
                    return self.rec_by_name(t['qualType'])
                except Abort:
                    pass
            raise

    @staticmethod
    def is_pointer_type(t):
        q = (t.get('desugaredQualType') or t.get('qualType', '')).strip()
        return q.endswith('*') or q.endswith('* const')

    @staticmethod
    def is_ref(t):
        q = (t.get('desugaredQualType') or t.get('qualType', '')).strip()
        return q.endswith('&')

    # ---- special-member triviality
    def dd(self, rec):
        return rec.get('definitionData', {})

    def has_nontrivial_dtor(self, rec):
        d = self.dd(rec).get('dtor', {})
        return not d.get('trivial', False)

    def trivially_copyable(self, rec):
        return bool(self.dd(rec).get('isTriviallyCopyable'))

    def trivial_default_ctor(self, rec):
        d = self.dd(rec)
        return bool(d.get('defaultCtor', {}).get('trivial')) or bool(d.get('isAggregate'))

    # ================================================================== functions
    def fn_cname(self, fn):
        return self.tu.fn_cname(fn)

    def may_throw(self, fn):
        if fn is None:
            return True
        q = fn['type']['qualType']
        if re.search(r'\bnoexcept\s*(\(\s*(true|1)\s*\))?\s*$', q) or re.search(r'\)\s*(const\s*)?noexcept\s*(->|$)', q):
            return False
        if fn['kind'] == 'CXXDestructorDecl':
            return False
        if self.tu.is_clinkage(fn):
            return False
        nm = fn.get('name', '')
        if nm in ('move', 'forward', 'addressof') :
            return False
        return True

    def request(self, fn_id):
        """returns (decl, has_body_to_translate)"""
        fn_id = self.canon_fn(fn_id)
        d = self.tu.defn.get(fn_id)
        if d is None:
            n = self.tu.byid.get(fn_id)
            if n is None:
                raise Abort('unknown callee ' + str(fn_id))
            n = self.tu.byid.get(self.tu.first.get(fn_id, fn_id), n)
            if not self.tu.is_clinkage(n):
                self.protos.setdefault(self.fn_cname(n), n)
            return n, False
        cn = self.fn_cname(d)
        if cn in self.abstract:
            self.protos.setdefault(cn, d)
            return d, False
        if d['id'] not in self.requested:
            self.requested.add(d['id'])
            self.todo.append(d)
        return d, True

    def canon_fn(self, fn_id):
        """operator() of a lambda instantiated several times -> operator() of the canonical closure record"""
        n = self.tu.byid.get(fn_id)
        if n is None or n.get('kind') != 'CXXMethodDecl' or n.get('name') != 'operator()':
            return fn_id
        cls = self.tu.parent.get(fn_id)
        if cls is None or not cls.get('definitionData', {}).get('isLambda'):
            return fn_id
        canon = self.tu.lambda_canon(cls)
        if canon['id'] == cls['id']:
            return fn_id
        for c in canon.get('inner', ()):
            if c.get('kind') == 'CXXMethodDecl' and c.get('name') == 'operator()':
                return c['id']
        return fn_id

    def is_instance_member(self, fn):
        f0 = self.tu.byid.get(self.tu.first.get(fn['id'], fn['id']), fn)
        return fn['kind'] in ('CXXMethodDecl', 'CXXConstructorDecl', 'CXXDestructorDecl', 'CXXConversionDecl') \
            and fn.get('storageClass') != 'static' and f0.get('storageClass') != 'static'

    def first_return(self, fn):
        def walk(n):
            if n.get('kind') == 'ReturnStmt':
                return n
            if n.get('kind') == 'LambdaExpr':
                return None
            for c in n.get('inner', ()):
                r = walk(c)
                if r is not None:
                    return r
            return None
        d = self.tu.defn.get(fn['id'], fn)
        return walk(d)

    def decltype_return(self, fn):
        """trailing decltype(...) return type: taken from the (typed) operand of the first return statement"""
        r = self.first_return(fn)
        if r is None or not r.get('inner'):
            return 'void', False
        e = r['inner'][0]
        t = e['type']
        q = t.get('desugaredQualType') or t['qualType']
        return q, e.get('valueCategory') == 'lvalue'

    def ret_ctype(self, fn):
        if fn['kind'] in ('CXXConstructorDecl', 'CXXDestructorDecl'):
            return 'void'
        ret, _, _ = fn_type_parts(fn['type'].get('desugaredQualType') or fn['type']['qualType'])
        if 'decltype(' in ret:
            q, is_ref = self.decltype_return(fn)
            return self.ctype_s(q) + (' *' if is_ref else '')
        if ret in ('auto', 'decltype(auto)'):
            raise Abort('undeduced return type in ' + fn.get('name', '?'))
        try:
            return self.ctype_s(self.resolve_dependent(ret, fn))
        except Abort:
            ret2, _, _ = fn_type_parts(fn['type']['qualType'])
            if ret2 != ret:
                return self.ctype_s(ret2)
            raise

    def resolve_dependent(self, q, fn):
        return q

    def returns_ref(self, fn):
        if fn['kind'] in ('CXXConstructorDecl', 'CXXDestructorDecl'):
            return False
        ret, _, _ = fn_type_parts(fn['type'].get('desugaredQualType') or fn['type']['qualType'])
        if 'decltype(' in ret:
            return self.decltype_return(fn)[1]
        return ret.strip().endswith('&')

    def signature(self, fn):
        ps = []
        if self.is_instance_member(fn):
            cls = self.tu.class_of(fn)
            if cls is None:
                raise Abort('member function without class: ' + fn.get('name', '?'))
            if cls.get('definitionData', {}).get('isLambda'):
                ps.append('%s *__cl' % self.struct_of(cls))
            else:
                ps.append('%s *self' % self.struct_of(cls))
        for i, p in enumerate(self.tu.params(fn)):
            ps.append(self.cdecl(p['type'], self.pname(p, i)))
        return '%s %s(%s)' % (self.ret_ctype(fn), self.fn_cname(fn), ', '.join(ps) or 'void')

    @staticmethod
    def pname(p, i):
        return p.get('name') or ('__p%d' % i)

    def unnamed_param(self, decl):
        fn = self.tu.parent.get(decl.get('id'))
        if fn is not None:
            for i, p in enumerate(self.tu.params(fn)):
                if p.get('id') == decl.get('id'):
                    return '__p%d' % i
        raise Abort('reference to an unnamed declaration')

    # ================================================================== function bodies
    def tmp(self, base='t'):
        self.tmp_n += 1
        return '__%s%d' % (base, self.tmp_n)

    def zero_return(self):
        rt = self.cur_ret
        if rt == 'void':
            return 'return;'
        if rt.startswith('struct '):
            return '{ %s __z = {0}; return __z; }' % rt
        return 'return 0;'

    def all_dtors(self, upto=None):
        """destructor calls for scopes innermost-first, stopping before scope kind `upto` (exclusive)"""
        out = []
        for sc in reversed(self.scopes):
            if upto is not None and sc.kind == upto:
                break
            out += list(reversed(sc.dtors))
        return out

    def exc_only_dtors(self):
        """[except.ctor]: once the target constructor of a DELEGATING constructor has completed, the object counts as constructed:
        if the delegating constructor's body then exits by an exception, the object's destructor runs"""
        return list(reversed(self.scopes[0].exc_only)) if self.scopes else []

    def exc_exit(self):
        """statement text executed when __exc is set after a call"""
        def unwind(d):
            # destructors of stack unwinding run with the exception in flight set aside (a destructor's own callees test
            # __exc for THEIR exceptions); one that throws itself during unwinding is std::terminate
            if not d:
                return ''
            return ('{ int __unw = __exc; __exc = 0; %s if (__exc) __verif_stop("exception thrown during stack unwinding '
                    '(std::terminate)"); __exc = __unw; }' % ' '.join(d))
        for sc in reversed(self.scopes):
            if sc.kind == 'try':
                d = self.all_dtors(upto='try')
                return '{ %s goto %s; }' % (unwind(d), sc.label)
        d = self.all_dtors() + self.exc_only_dtors()
        if not self.cur_may_throw:
            return '{ __verif_stop("exception leaves noexcept function (std::terminate)"); }'
        return '{ %s %s }' % (unwind(d), self.zero_return())

    def exc_check(self):
        self.need_exc = True
        return 'if (__exc) ' + self.exc_exit()

    def emit_fn(self, fn):
        self.cur_fn = fn
        self.cur_cls = self.tu.class_of(fn)
        self.cur_ret = self.ret_ctype(fn)
        self.cur_may_throw = self.may_throw(fn)
        self.cur_lambda = None
        if self.cur_cls is not None and self.cur_cls.get('definitionData', {}).get('isLambda'):
            self.cur_lambda = self.closure_info(self.cur_cls)
        self.scopes = [Scope('fn')]
        self.loop_n = 0
        self.pre = []
        self.stats = {}
        self.calls = []
        self.try_n = 0
        sig = self.signature(fn)
        lines = []
        body = [c for c in fn['inner'] if c.get('kind') in ('CompoundStmt', 'CXXTryStmt')][0]
        if fn['kind'] == 'CXXConstructorDecl':
            for ci in fn['inner']:
                if ci.get('kind') == 'CXXCtorInitializer':
                    lines += self.ctor_init(ci)
        if body['kind'] == 'CXXTryStmt':
            lines += self.stmt(body, 1)
        else:
            lines += self.block_items(body, 1)
        if fn['kind'] == 'CXXDestructorDecl':
            lines += ['  ' + s for s in self.member_dtors(self.cur_cls)]
        lines += ['  ' + s for s in reversed(self.scopes[0].dtors)]
        cn = self.fn_cname(fn)
        loc = self.loc_of(fn)
        self.funcs[cn] = dict(sig=sig, body=lines, loops=self.loop_n, decl=fn, loc=loc, stats=dict(self.stats),
                              calls=list(self.calls), may_throw=self.cur_may_throw)
        self.func_order.append(cn)

    def loc_of(self, n):
        if n.get('id') in self.tu.file_of:
            return self.tu.file_of[n['id']]
        loc = n.get('loc') or n.get('range', {}).get('begin', {})
        f = loc.get('file') or loc.get('expansionLoc', {}).get('file') or loc.get('spellingLoc', {}).get('file')
        line = loc.get('line') or loc.get('expansionLoc', {}).get('line') or loc.get('spellingLoc', {}).get('line')
        return (f, line)

    def member_dtors(self, rec):
        out = []
        if rec is None:
            return out
        for c in reversed([c for c in rec.get('inner', ()) if c.get('kind') == 'FieldDecl']):
            frec = self.rec_of_type_safe(c['type'])
            m = re.match(r'^(.*?)\s*\[(\d+)\]$', (c['type'].get('desugaredQualType') or c['type']['qualType']).strip())
            if m:
                try:
                    erec = self.rec_by_name(m.group(1))
                except Abort:
                    erec = None
                if erec is not None and self.has_nontrivial_dtor(erec):
                    d = self.dtor_call(erec, None)
                    for i in reversed(range(int(m.group(2)))):
                        out.append(self.dtor_call(erec, '&self->%s[%d]' % (c['name'], i)))
                continue
            if frec is not None and self.has_nontrivial_dtor(frec):
                out.append(self.dtor_call(frec, '&self->%s' % c['name']))
        for b in reversed(rec.get('bases', []) or []):
            brec = self.rec_by_name(b['type'].get('desugaredQualType') or b['type']['qualType'])
            if self.has_nontrivial_dtor(brec):
                out.append(self.dtor_call(brec, '&self->%s' % self.base_member(brec)))
        return [o for o in out if o]

    def rec_of_type_safe(self, t):
        try:
            return self.rec_of_type(t)
        except Abort:
            return None

    def find_special(self, rec, kind, pred=None):
        for c in rec.get('inner', ()):
            if c.get('kind') == kind and (pred is None or pred(c)):
                return c
        return None

    def dtor_call(self, rec, target):
        d = self.find_special(rec, 'CXXDestructorDecl')
        if d is None:
            # implicit destructor never declared in the AST: synthesise member destruction inline is not possible
            raise Abort('non-trivial destructor of %s has no declaration in the AST' % rec.get('name'))
        dd, has = self.request(d['id'])
        if not has and dd.get('isImplicit') or (not has and dd.get('explicitlyDefaulted')):
            # implicit dtor without a synthesised body: emit one ourselves
            self.synth_dtor(rec, dd)
        if target is None:
            return None
        return '%s(%s);' % (self.fn_cname(dd), target)

    def synth_dtor(self, rec, d):
        cn = self.fn_cname(d)
        if cn in self.funcs or cn in self.abstract:
            return
        self.protos.pop(cn, None)
        save = (self.cur_fn, self.cur_cls, getattr(self, 'scopes', None))
        self.funcs[cn] = None
        body = ['  ' + s for s in self.member_dtors(rec)]
        self.funcs[cn] = dict(sig='void %s(%s *self)' % (cn, self.struct_of(rec)), body=body, loops=0, decl=d,
                              loc=self.loc_of(rec), stats={}, calls=[], may_throw=False, synthesized=True)
        self.func_order.append(cn)

    def ctor_init(self, ci):
        e = ci['inner'][0] if ci.get('inner') else None
        out = []
        self.pre = []
        self.cur_init_field = ci.get('anyInit')
        if 'anyInit' in ci:
            fld = ci['anyInit']
            target = 'self->%s' % fld['name']
            ft = fld['type']
            if self.is_ref(ft):
                out.append('%s = %s;' % (target, self.addr_of(e)))
            else:
                out += self.init_object(target, ft, e)
        elif 'baseInit' in ci:
            brec = self.rec_by_name(ci['baseInit'].get('desugaredQualType') or ci['baseInit']['qualType'])
            self.struct_of(self.cur_cls)
            target = 'self->%s' % self.base_member(brec)
            out += self.init_object(target, ci['baseInit'], e)
        else:
            # delegating constructor
            se = self.strip(e)
            if se['kind'] != 'CXXConstructExpr':
                raise Abort('delegating ctor init form')
            out.append(self.construct_into('self', se, self.cur_cls) + ';')
            if self.stmt_calls_may_throw:
                out.append(self.exc_check())
            if self.has_nontrivial_dtor(self.cur_cls):
                self.scopes[0].exc_only.append(self.dtor_call(self.cur_cls, 'self'))
        res = ['  ' + s for s in self.pre + out]
        self.pre = []
        return res

    def init_object(self, target, t, e):
        """statements initialising C lvalue `target` of (clang) type t from initialiser expr e"""
        self.stmt_calls_may_throw = False
        out = []
        if e is None:
            return out
        se = self.strip(e)
        rec = self.rec_of_type_safe(t)
        tq = (t.get('desugaredQualType') or t.get('qualType', '')).strip()
        am = re.match(r'^(.*?)\s*\[(\d+)\]$', tq)
        if am and se['kind'] == 'CXXConstructExpr':
            # array of class objects, each element constructed with the same constructor call
            erec = self.rec_by_name(am.group(1))
            if self.is_trivial_construct(se, erec) and not se.get('inner'):
                return out
            for k in range(int(am.group(2))):
                out.append(self.construct_into('&%s[%d]' % (target, k), se, erec) + ';')
                if self.stmt_calls_may_throw:
                    out.append(self.exc_check())
            return out
        if se['kind'] in ('CXXConstructExpr', 'CXXTemporaryObjectExpr') and rec is not None:
            if not self.is_trivial_construct(se, rec):
                out.append(self.construct_into('&' + target, se, rec) + ';')
                if self.stmt_calls_may_throw:
                    out.append(self.exc_check())
                return out
            if not se.get('inner'):
                return out          # trivial default construction: leaves memory indeterminate
        if se['kind'] == 'InitListExpr' and (t.get('desugaredQualType') or t['qualType']).strip().endswith(']'):
            for i, c in enumerate(se.get('inner', ())):
                out += self.init_object('%s[%d]' % (target, i), c['type'], c)
            return out
        if se['kind'] == 'ImplicitValueInitExpr':
            if rec is not None or (t.get('qualType', '').strip().endswith(']')):
                out.append('memset(&%s, 0, sizeof(%s));' % (target, target))
            else:
                out.append('%s = 0;' % target)
            return out
        if se['kind'] == 'CXXDefaultInitExpr':
            fld = self.cur_init_field
            fd = self.tu.byid.get(fld['id'], fld) if fld else None
            ini = [c for c in (fd or {}).get('inner', ()) if 'Comment' not in c.get('kind', '') and not c.get('kind', '').endswith('Attr')]
            if not ini:
                raise Abort('default member initialiser not found')
            return self.init_object(target, t, ini[-1])
        top = self.top_call(e)
        s = self.expr(e, top=top)
        out.append('%s = %s;' % (target, s))
        if self.stmt_calls_may_throw:
            out.append(self.exc_check())
        return out

    def is_trivial_construct(self, e, rec):
        """copy/move/default construction that is a plain struct copy / no-op"""
        args = e.get('inner', [])
        if len(args) == 0:
            return self.trivial_default_ctor(rec)
        if len(args) == 1:
            ct = e.get('ctorType', {}).get('qualType', '')
            _, ps, _ = fn_type_parts(ct)
            if len(ps) == 1 and ps[0].rstrip().endswith('&') and self.trivially_copyable(rec):
                pt = re.sub(r'\b(const)\b|&', '', ps[0]).strip()
                if pt.split('::')[-1].split('<')[0] == rec.get('name') or rec.get('definitionData', {}).get('isLambda'):
                    return True
        return False

    def find_ctor(self, rec, e):
        want = e['ctorType']['qualType']
        cands = [c for c in rec.get('inner', ()) if c.get('kind') == 'CXXConstructorDecl' and c['type']['qualType'] == want]
        if not cands:
            # constructor templates: instantiations live under FunctionTemplateDecl
            for c in rec.get('inner', ()):
                if c.get('kind') == 'FunctionTemplateDecl':
                    for f in c.get('inner', ()):
                        if f.get('kind') == 'CXXConstructorDecl' and f['type']['qualType'] == want and \
                                any(x.get('kind') == 'TemplateArgument' for x in f.get('inner', ())):
                            cands.append(f)
        if not cands:
            # inherited / differently printed: compare parameter counts
            n = len(fn_type_parts(want)[1])
            cands = [c for c in rec.get('inner', ()) if c.get('kind') == 'CXXConstructorDecl'
                     and len(self.tu.params(c)) == n and sanitize(c['type']['qualType']) == sanitize(want)]
        if len(cands) != 1:
            raise Abort('cannot resolve constructor %s of %s (%d candidates)' % (want, rec.get('name'), len(cands)))
        return cands[0]

    def construct_into(self, target, e, rec):
        ctor = self.find_ctor(rec, e)
        d, has = self.request(ctor['id'])
        if not has and (d.get('isImplicit') or d.get('explicitlyDefaulted')) and not self.tu.has_body(d):
            raise Abort('implicit constructor without synthesised body: %s %s' % (rec.get('name'), e['ctorType']['qualType']))
        if self.may_throw(d):
            self.stmt_calls_may_throw = True
        self.calls.append(self.fn_cname(d))
        return '%s(%s)' % (self.fn_cname(d), ', '.join([target] + self.args(d, e.get('inner', []))))

    # ================================================================== statements
    def count(self, k):
        self.stats[k] = self.stats.get(k, 0) + 1

    def block_items(self, s, ind):
        out = []
        for c in s.get('inner', ()):
            out += self.stmt(c, ind)
        return out

    def block(self, s, ind, kind='block'):
        I = '  ' * ind
        sc = Scope(kind)
        self.scopes.append(sc)
        if s['kind'] == 'CompoundStmt':
            items = self.block_items(s, ind + 1)
        else:
            items = self.stmt(s, ind + 1)
        tail = ['  ' * (ind + 1) + d for d in reversed(sc.dtors)]
        self.scopes.pop()
        return [I + '{'] + items + tail + [I + '}']

    def with_pre(self, I, fn):
        """run fn() (which translates expressions) collecting hoisted pre-statements"""
        save = self.pre
        self.pre = []
        self.stmt_calls_may_throw = False
        res = fn()
        pre = [I + p for p in self.pre]
        self.pre = save
        return pre, res

    def top_call(self, e):
        """id of the call node that may stay in place (checked right after the statement)"""
        while e is not None:
            k = e.get('kind')
            if k in TRANSPARENT or k in ('ImplicitCastExpr', 'CXXStaticCastExpr', 'CStyleCastExpr', 'CXXFunctionalCastExpr',
                                         'CXXReinterpretCastExpr', 'CXXConstCastExpr'):
                inner = [c for c in e.get('inner', ()) if c.get('kind') != 'NonTypeTemplateParmDecl']
                e = inner[-1] if inner else None
            elif k == 'BinaryOperator' and e.get('opcode') == '=':
                # `local = f()` may keep the call in place (the local is dead if f throws); for any other target (global, member,
                # *p) the call is hoisted into a temporary so that NO assignment happens when the callee throws, as in C++
                lhs = self.strip(e['inner'][0])
                rd = lhs.get('referencedDecl') or {}
                d = self.tu.byid.get(rd.get('id'), rd)
                q = (d.get('type') or {}).get('qualType', '')
                if lhs.get('kind') == 'DeclRefExpr' and d.get('kind') == 'VarDecl' and not self.is_global(d) \
                        and d.get('storageClass') != 'static' and not q.rstrip().endswith('&'):
                    e = e['inner'][1]
                else:
                    return None
            elif k in ('CallExpr', 'CXXMemberCallExpr', 'CXXOperatorCallExpr', 'CXXConstructExpr', 'CXXTemporaryObjectExpr'):
                return e.get('id')
            else:
                return None
        return None

    def cond_expr(self, e, what):
        save = self.pre
        self.pre = []
        self.stmt_calls_may_throw = False
        s = self.expr(e, top=None)
        if self.pre:
            raise Abort('hoisted temporaries/throwing calls in a %s condition' % what)
        self.pre = save
        return s

    def stmt(self, s, ind):
        I = '  ' * ind
        k = s['kind']
        self.count(k)
        if k == 'CompoundStmt':
            return self.block(s, ind)
        if k == 'NullStmt':
            return [I + ';']
        if k == 'DeclStmt':
            out = []
            for v in s['inner']:
                if v['kind'] in ('StaticAssertDecl', 'TypeAliasDecl', 'TypedefDecl', 'UsingDecl', 'CXXRecordDecl', 'EnumDecl'):
                    continue
                if v['kind'] != 'VarDecl':
                    raise Abort('declaration kind ' + v['kind'])
                out += self.var_decl(v, I)
            return out
        if k == 'IfStmt':
            c = list(s['inner'])
            out = []
            if s.get('hasVar'):
                # if (auto x = ...) : decl, then condition expression
                vd = c[0]
                out.append(I + '{')
                out += self.stmt(vd, ind + 1)
                c = c[1:]
                I2 = I + '  '
            else:
                I2 = I
            if s.get('hasInit'):
                raise Abort('if with init statement')
            pre, cs = self.with_pre(I2, lambda: self.expr(c[0], top=self.top_call(c[0])))
            out += pre
            if self.stmt_calls_may_throw:
                t = self.tmp('c')
                out.append(I2 + '_Bool %s = %s;' % (t, cs))
                out.append(I2 + self.exc_check())
                cs = t
            out.append(I2 + 'if (%s)' % cs)
            out += self.block(c[1], ind + (1 if s.get('hasVar') else 0))
            if len(c) > 2:
                out.append(I2 + 'else')
                out += self.block(c[2], ind + (1 if s.get('hasVar') else 0))
            if s.get('hasVar'):
                out.append(I + '}')
            return out
        if k == 'ReturnStmt':
            return self.return_stmt(s, I)
        if k in ('ForStmt', 'WhileStmt', 'DoStmt'):
            return self.loop_stmt(s, ind)
        if k == 'BreakStmt':
            return [I + d for d in self.all_dtors(upto='loop')] + [I + 'break;']
        if k == 'ContinueStmt':
            return [I + d for d in self.all_dtors(upto='loop')] + [I + 'continue;']
        if k == 'CXXTryStmt':
            return self.try_stmt(s, ind)
        if k == 'CXXThrowExpr' or (k == 'ExprWithCleanups' and s['inner'][0]['kind'] == 'CXXThrowExpr'):
            th = s if k == 'CXXThrowExpr' else s['inner'][0]
            return self.throw_stmt(th, I)
        if k in ('CXXForRangeStmt', 'SwitchStmt', 'GotoStmt', 'LabelStmt', 'CaseStmt'):
            raise Abort('statement kind ' + k)
        # expression statement
        top = self.top_call(s)
        pre, es = self.with_pre(I, lambda: self.expr(s, top=top, discard=True))
        out = pre + [I + es + ';']
        if self.stmt_calls_may_throw:
            out.append(I + self.exc_check())
        return out

    def var_decl(self, v, I):
        out = []
        name = v['name']
        t = v['type']
        if v.get('storageClass') == 'static' or v.get('tls'):
            raise Abort('static/thread_local local variable ' + name)
        inits = [c for c in v.get('inner', ()) if 'Comment' not in c.get('kind', '') and not c.get('kind', '').endswith('Attr')]
        init = inits[0] if (inits and v.get('init')) else None
        if self.is_ref(t):
            if init is None:
                raise Abort('reference without initialiser')
            pre, a = self.with_pre(I, lambda: self.addr_of(init))
            out += pre
            out.append(I + '%s = %s;' % (self.cdecl(t, name), a))
            if self.stmt_calls_may_throw:
                out.append(I + self.exc_check())
            return out
        out.append(I + self.cdecl(t, name) + ';')
        rec = self.rec_of_type_safe(t)
        if init is not None:
            pre, stm = self.with_pre(I, lambda: self.init_object(name, t, init))
            out += pre + [I + x for x in stm]
        if rec is not None and self.has_nontrivial_dtor(rec):
            self.scopes[-1].dtors.append(self.dtor_call(rec, '&' + name))
        return out

    def return_stmt(self, s, I):
        dt = self.all_dtors(upto='never')
        if not s.get('inner'):
            return [I + d for d in dt] + [I + 'return;']
        e = s['inner'][0]
        if self.cur_ret == 'void':
            pre, es = self.with_pre(I, lambda: self.expr(e, top=self.top_call(e), discard=True))
            out = pre + [I + es + ';']
            if self.stmt_calls_may_throw:
                out.append(I + self.exc_check())
            return out + [I + d for d in dt] + [I + 'return;']
        if self.returns_ref(self.cur_fn):
            pre, es = self.with_pre(I, lambda: self.addr_of(e))
        else:
            rec = None
            se = self.strip(e)
            if self.cur_ret.startswith('struct ') and se['kind'] in ('CXXConstructExpr', 'CXXTemporaryObjectExpr'):
                rec = self.rec_of_type_safe(se['type'])
            if rec is not None and not self.is_trivial_construct(se, rec):
                t = self.tmp('r')
                pre, stm = self.with_pre(I, lambda: self.init_object(t, se['type'], se))
                return [I + '%s %s;' % (self.cur_ret, t)] + pre + [I + x for x in stm] + [I + d for d in dt] + [I + 'return %s;' % t]
            pre, es = self.with_pre(I, lambda: self.expr(e, top=self.top_call(e)))
        if not dt and not self.stmt_calls_may_throw:
            return pre + [I + 'return %s;' % es]
        t = self.tmp('r')
        out = pre + [I + '%s %s = %s;' % (self.cur_ret, t, es)]
        if self.stmt_calls_may_throw:
            out.append(I + self.exc_check())
        return out + [I + d for d in dt] + [I + 'return %s;' % t]

    def loop_stmt(self, s, ind):
        I = '  ' * ind
        k = s['kind']
        self.loop_n += 1
        marker = I + '/*@LOOP %d@*/' % self.loop_n
        out = []
        if k == 'ForStmt':
            init, condvar, cond, inc, body = s['inner']
            sc = Scope('block')
            self.scopes.append(sc)
            out.append(I + '{')
            if init.get('kind'):
                out += self.stmt(init, ind + 1)
            cs = self.cond_expr(cond, 'for') if cond.get('kind') else ''
            if inc.get('kind'):
                pre, incs = self.with_pre(I, lambda: self.expr(inc, top=self.top_call(inc), discard=True))
                if pre or self.stmt_calls_may_throw:
                    raise Abort('for-increment needs hoisting')
            else:
                incs = ''
            out.append(I + '  for (; %s; %s)' % (cs, incs))
            out.append('  ' + marker)
            self.scopes.append(Scope('loop'))
            out += self.block(body, ind + 1)
            self.scopes.pop()
            out += [I + '  ' + d for d in reversed(sc.dtors)]
            self.scopes.pop()
            out.append(I + '}')
            return out
        if k == 'WhileStmt':
            if s.get('hasVar'):
                raise Abort('while with condition variable')
            cond, body = s['inner'][-2:]
            cs = self.cond_expr(cond, 'while')
            out.append(I + 'while (%s)' % cs)
            out.append(marker)
            self.scopes.append(Scope('loop'))
            out += self.block(body, ind)
            self.scopes.pop()
            return out
        body, cond = s['inner']
        out.append(I + 'do')
        out.append(marker)
        self.scopes.append(Scope('loop'))
        out += self.block(body, ind)
        self.scopes.pop()
        out.append(I + 'while (%s);' % self.cond_expr(cond, 'do-while'))
        return out

    # ---- exceptions
    def exc_id(self, rec):
        cn = self.rec_cname(rec)
        self.exc_classes[cn] = rec
        self.need_exc = True
        return 'EXC_' + cn

    def throw_stmt(self, th, I):
        self.need_exc = True
        if not th.get('inner'):
            # rethrow inside a handler
            for sc in reversed(self.scopes):
                if sc.kind == 'catch':
                    return [I + '__exc = %s;' % sc.saved, I + self.exc_exit_outside_catch()]
            raise Abort('rethrow outside handler')
        e = self.strip(th['inner'][0])
        # the operand is a (copy of a) freshly constructed exception object
        while e['kind'] in ('CXXConstructExpr',) and len(e.get('inner', ())) == 1 and \
                self.strip(e['inner'][0])['kind'] in ('CXXConstructExpr', 'CXXTemporaryObjectExpr', 'CXXFunctionalCastExpr'):
            e = self.strip(e['inner'][0])
        if e['kind'] == 'CXXFunctionalCastExpr':
            e = self.strip(e['inner'][0])
        if e['kind'] not in ('CXXConstructExpr', 'CXXTemporaryObjectExpr'):
            raise Abort('throw operand ' + e['kind'])
        rec = self.rec_of_type(e['type'])
        t = self.tmp('exn')
        pre, call = self.with_pre(I, lambda: self.construct_into('&' + t, e, rec))
        out = [I + '%s %s;' % (self.struct_of(rec), t)] + pre + [I + call + ';']
        out.append(I + '__exc = %s;' % self.exc_id(rec))
        out.append(I + self.exc_exit())
        return out

    def exc_exit_outside_catch(self):
        # like exc_exit, but the innermost 'catch' scope is transparent
        return self.exc_exit()

    def try_stmt(self, s, ind):
        I = '  ' * ind
        self.need_exc = True
        self.try_n += 1
        n = self.try_n
        tryb = s['inner'][0]
        handlers = s['inner'][1:]
        sc = Scope('try')
        sc.label = '__catch_%d' % n
        self.scopes.append(sc)
        out = self.block(tryb, ind)
        self.scopes.pop()
        out.append(I + 'goto __tryend_%d;' % n)
        out.append(I + '__catch_%d: ;' % n)
        out.append(I + '{')
        saved = '__caught_%d' % n
        out.append(I + '  int %s = __exc;' % saved)
        first = True
        for h in handlers:
            inner = h.get('inner', [])
            body = inner[-1]
            var = inner[0] if len(inner) > 1 and inner[0].get('kind') == 'VarDecl' else None
            if var is not None and var.get('type'):
                rec = self.rec_of_type_safe({'qualType': re.sub(r'\bconst\b|&', '', var['type']['qualType']).strip()})
                if rec is None:
                    raise Abort('catch of non-class type')
                cond = 'EXC_ISA_%s(%s)' % (self.rec_cname(rec), saved)
                self.exc_classes[self.rec_cname(rec)] = rec
                if var.get('name') and var.get('isUsed'):
                    raise Abort('catch handler uses the exception object')
            else:
                cond = '1'
            out.append(I + '  %sif (%s)' % ('' if first else 'else ', cond))
            first = False
            csc = Scope('catch')
            csc.saved = saved
            out.append(I + '  {')
            out.append(I + '    __exc = 0;')
            self.scopes.append(csc)
            out += self.block(body, ind + 2)
            self.scopes.pop()
            out.append(I + '  }')
        out.append(I + '  else ' + self.exc_exit())
        out.append(I + '}')
        out.append(I + '__tryend_%d: ;' % n)
        return out

    # ================================================================== expressions
    def strip(self, e):
        while e['kind'] in TRANSPARENT or (e['kind'] == 'ImplicitCastExpr' and e.get('castKind') in ('NoOp', 'ConstructorConversion')):
            inner = [c for c in e.get('inner', ()) if c.get('kind') != 'NonTypeTemplateParmDecl']
            e = inner[-1]
        return e

    def addr_of(self, e):
        """C expression for the address of the object denoted by glvalue/temporary expression e"""
        se = e
        while se['kind'] in ('ExprWithCleanups', 'ParenExpr', 'ConstantExpr') or \
                (se['kind'] == 'ImplicitCastExpr' and se.get('castKind') == 'NoOp'):
            se = se['inner'][0]
        if se['kind'] == 'MaterializeTemporaryExpr' or se.get('valueCategory') == 'prvalue':
            # bind a reference to a temporary: materialise it
            inner = se['inner'][0] if se['kind'] == 'MaterializeTemporaryExpr' else se
            return '&' + self.materialize(inner)
        s = self.expr(se, top=self.cur_top)
        if s.startswith('(*') and s.endswith(')') and self.balanced(s[2:-1]):
            return s[2:-1]
        return '&' + s

    @staticmethod
    def balanced(s):
        d = 0
        for ch in s:
            if ch == '(':
                d += 1
            elif ch == ')':
                d -= 1
                if d < 0:
                    return False
        return d == 0

    def materialize(self, e):
        """hoist prvalue e into a fresh temporary; returns the temporary's name"""
        t = self.tmp('tmp')
        ty = e['type']
        se = self.strip(e)
        rec = self.rec_of_type_safe(ty)
        self.pre.append(self.cdecl(ty, t) + ';')
        save_throw = self.stmt_calls_may_throw
        stm = self.init_object(t, ty, e)
        thrown = self.stmt_calls_may_throw
        self.stmt_calls_may_throw = save_throw
        self.pre += stm
        if rec is not None and self.has_nontrivial_dtor(rec):
            self.scopes[-1].dtors.append(self.dtor_call(rec, '&' + t))
        return t

    cur_top = None

    def expr(self, e, top=None, discard=False):
        save = self.cur_top
        self.cur_top = top
        try:
            return self.expr1(e, discard)
        finally:
            self.cur_top = save

    def sub(self, e):
        return self.expr1(e, False)

    def expr1(self, e, discard=False):
        k = e['kind']
        self.count(k)
        if k in ('ExprWithCleanups', 'CXXBindTemporaryExpr', 'ConstantExpr', 'SubstNonTypeTemplateParmExpr'):
            inner = [c for c in e['inner'] if c.get('kind') != 'NonTypeTemplateParmDecl']
            return self.expr1(inner[-1], discard)
        if k == 'MaterializeTemporaryExpr':
            # used as a glvalue (member access on a temporary, argument binding handled in args())
            inner = e['inner'][0]
            if self.rec_of_type_safe(e['type']) is not None:
                return self.materialize(inner)
            return self.expr1(inner)
        if k == 'ParenExpr':
            return '(' + self.sub(e['inner'][0]) + ')'
        if k == 'ImplicitCastExpr' or k in ('CXXStaticCastExpr', 'CXXReinterpretCastExpr', 'CStyleCastExpr',
                                            'CXXFunctionalCastExpr', 'CXXConstCastExpr'):
            return self.cast(e, discard)
        if k == 'IntegerLiteral':
            t = self.ctype(e['type'])
            suf = {'unsigned int': 'u', 'unsigned long': 'ul', 'long': 'l', 'unsigned long long': 'ull', 'long long': 'll'}.get(t, '')
            return e['value'] + suf
        if k == 'CharacterLiteral':
            return str(e['value'])
        if k == 'CXXBoolLiteralExpr':
            return '1' if e['value'] else '0'
        if k in ('CXXNullPtrLiteralExpr', 'GNUNullExpr'):
            return '((void*)0)'
        if k == 'StringLiteral':
            return e['value']
        if k == 'PredefinedExpr':
            return '"fn"'
        if k == 'CXXThisExpr':
            if self.cur_lambda is not None:
                return '__cl->self'
            return 'self'
        if k == 'DeclRefExpr':
            return self.declref(e)
        if k == 'MemberExpr':
            return self.member(e)
        if k == 'UnaryOperator':
            op = e['opcode']
            if op == '&':
                return self.addr_of(e['inner'][0])
            if op == '*':
                s = self.sub(e['inner'][0])
                return '(*%s)' % s
            if op == '__extension__':
                return self.sub(e['inner'][0])
            s = self.sub(e['inner'][0])
            return '(%s%s)' % (s, op) if e.get('isPostfix') else '(%s%s)' % (op, s)
        if k in ('BinaryOperator', 'CompoundAssignOperator'):
            op = e['opcode']
            a, b = e['inner']
            if op in ('&&', '||'):
                return '(%s %s %s)' % (self.sub(a), op, self.guarded(b))
            if op == ',':
                return '(%s, %s)' % (self.sub(a), self.sub(b))
            if op in ('<', '>', '<=', '>=') and self.is_pointer_type(a['type']) and self.is_pointer_type(b['type']):
                # relational comparison of pointers into possibly different objects: the library relies on the flat
                # address space of the target, i.e. on comparing the addresses as integers
                return '((unsigned long)%s %s (unsigned long)%s)' % (self.sub(a), op, self.sub(b))
            if op == '=' and self.rec_of_type_safe(e['type']) is not None and self.strip(b)['kind'] == 'InitListExpr':
                return '(%s = %s)' % (self.sub(a), self.sub(b))
            return '(%s %s %s)' % (self.sub(a), op, self.sub(b))
        if k == 'ConditionalOperator':
            a, b, c = e['inner']
            return '(%s ? %s : %s)' % (self.sub(a), self.guarded(b), self.guarded(c))
        if k == 'UnaryExprOrTypeTraitExpr':
            if 'argType' in e:
                return '%s(%s)' % (self.sizeof_name(e['name']), self.ctype(e['argType']))
            return '%s(%s)' % (self.sizeof_name(e['name']), self.sub(e['inner'][0]))
        if k == 'ArraySubscriptExpr':
            return '%s[%s]' % (self.sub(e['inner'][0]), self.sub(e['inner'][1]))
        if k == 'CallExpr':
            return self.call(e, discard)
        if k == 'CXXMemberCallExpr':
            return self.member_call(e, discard)
        if k == 'CXXOperatorCallExpr':
            return self.operator_call(e, discard)
        if k == 'InitListExpr':
            return self.init_list(e)
        if k in ('CXXConstructExpr', 'CXXTemporaryObjectExpr'):
            rec = self.rec_of_type_safe(e['type'])
            if rec is None:
                if len(e.get('inner', ())) == 1:
                    return self.sub(e['inner'][0])
                raise Abort('construct expr of non-record ' + e['type']['qualType'])
            if self.is_trivial_construct(e, rec):
                if e.get('inner'):
                    return self.sub(e['inner'][0])
                return self.materialize(e)
            return self.materialize(e)
        if k == 'CXXScalarValueInitExpr' or k == 'ImplicitValueInitExpr':
            ct = self.ctype(e['type'])
            if self.rec_of_type_safe(e['type']) is not None or ct.startswith('struct '):
                return '(%s){0}' % ct
            return '((%s)0)' % ct
        if k == 'LambdaExpr':
            return self.lambda_expr(e)
        if k == 'CXXNewExpr':
            return self.new_expr(e)
        if k == 'CXXDefaultArgExpr':
            raise Abort('default argument outside a call')
        if k == 'CXXNoexceptExpr':
            return '1' if e.get('value', True) else '0'
        if k == 'TypeTraitExpr':
            raise Abort('type trait expression without constant value')
        if k == 'CXXThrowExpr':
            raise Abort('throw in expression position')
        if k == 'CXXPseudoDestructorExpr':
            return '((void)0)'
        raise Abort('expression kind ' + k)

    def sizeof_name(self, n):
        return {'sizeof': 'sizeof', 'alignof': '_Alignof', '__alignof': '_Alignof'}.get(n, n)

    def guarded(self, e):
        """operand that is evaluated conditionally: nothing may be hoisted out of it"""
        n = len(self.pre)
        save = self.stmt_calls_may_throw
        self.stmt_calls_may_throw = False
        s = self.sub(e)
        if len(self.pre) != n:
            raise Abort('temporary or throwing call inside a conditionally evaluated operand')
        if self.stmt_calls_may_throw:
            raise Abort('possibly throwing call inside a conditionally evaluated operand')
        self.stmt_calls_may_throw = save
        return s

    # ---- casts
    def cast(self, e, discard=False):
        ck = e.get('castKind')
        inner = e['inner'][0]
        if ck == 'ToVoid':
            return '((void)%s)' % self.expr1(inner, True)
        if ck in ('LValueToRValue', 'NoOp', 'FunctionToPointerDecay', 'ArrayToPointerDecay', 'ConstructorConversion',
                  'BuiltinFnToFnPtr', 'AtomicToNonAtomic', 'NonAtomicToAtomic'):
            return self.expr1(inner, discard)
        if ck == 'NullToPointer':
            return '((%s)0)' % self.ctype(e['type'])
        if ck == 'UserDefinedConversion':
            return self.expr1(inner)
        if ck == 'IntegralCast':
            # T(-k) with unsigned T: the wrapped constant (an intentional idiom such as std::size_t(-1))
            si = self.strip(inner)
            ct = self.ctype(e['type'])
            if si['kind'] == 'UnaryOperator' and si.get('opcode') == '-' and self.strip(si['inner'][0])['kind'] == 'IntegerLiteral' \
                    and ct in ('unsigned long', 'unsigned int', 'unsigned long long'):
                bits = 32 if ct == 'unsigned int' else 64
                v = (-int(self.strip(si['inner'][0])['value'])) % (1 << bits)
                return '%d%s' % (v, 'u' if bits == 32 else 'ul')
        if ck in ('BitCast', 'IntegralCast', 'PointerToIntegral', 'IntegralToPointer', 'IntegralToFloating',
                  'FloatingToIntegral', 'FloatingCast'):
            return '((%s)%s)' % (self.ctype(e['type']), self.sub(inner))
        if ck in ('IntegralToBoolean', 'PointerToBoolean'):
            return '(%s != 0)' % self.sub(inner)
        if ck in ('DerivedToBase', 'UncheckedDerivedToBase'):
            return self.derived_to_base(e, inner)
        if ck == 'BaseToDerived':
            return self.base_to_derived(e, inner)
        if ck == 'LValueBitCast':
            return '(*(%s *)%s)' % (self.ctype(e['type']), self.addr_of(inner))
        if ck == 'Dependent':
            raise Abort('dependent cast')
        raise Abort('cast kind ' + str(ck))

    def pointee_rec(self, t):
        q = (t.get('desugaredQualType') or t['qualType']).strip()
        is_ptr = q.endswith('*')
        q = re.sub(r'\*$', '', q).strip()
        q = re.sub(r'&+$', '', q).strip()
        return self.rec_by_name(q), is_ptr

    def base_path(self, drec, brec, seen=None):
        if drec['id'] == brec['id'] or self.rec_cname(drec) == self.rec_cname(brec):
            return []
        for b in drec.get('bases', []) or []:
            r = self.rec_by_name(b['type'].get('desugaredQualType') or b['type']['qualType'])
            sub = self.base_path(r, brec)
            if sub is not None:
                self.struct_of(drec)
                return [self.base_member(r)] + sub
        return None

    def path_by_names(self, drec, names):
        out = []
        cur = drec
        for nm in names:
            nxt = None
            for b in cur.get('bases', []) or []:
                r = self.rec_by_name(b['type'].get('desugaredQualType') or b['type']['qualType'])
                if r.get('name') == nm:
                    nxt = r
                    break
            if nxt is None:
                return None
            self.struct_of(cur)
            out.append(self.base_member(nxt))
            cur = nxt
        return out

    def derived_to_base(self, e, inner):
        q = (e['type'].get('desugaredQualType') or e['type']['qualType']).strip()
        is_ptr = q.endswith('*')
        iq = (inner['type'].get('desugaredQualType') or inner['type']['qualType']).strip()
        if re.match(r'^(const |volatile )*std::(atomic|__atomic_base|__atomic_float)<', iq):
            return self.sub(inner)      # std::atomic<T> is a plain T: its base sub-objects are the same scalar
        drec, _ = self.pointee_rec(inner['type'])
        path = None
        if e.get('path'):
            path = self.path_by_names(drec, [p['name'] for p in e['path']])
        if path is None:
            brec, is_ptr = self.pointee_rec(e['type'])
            path = self.base_path(drec, brec)
        if path is None:
            raise Abort('no base path from %s' % (drec.get('name')))
        s = self.sub(inner)
        if is_ptr:
            return '(&(%s)->%s)' % (s, '.'.join(path)) if path else s
        return '%s.%s' % (s, '.'.join(path)) if path else s

    def base_to_derived(self, e, inner):
        drec, is_ptr = self.pointee_rec(e['type'])
        brec, _ = self.pointee_rec(inner['type'])
        path = self.base_path(drec, brec)
        if path is None:
            raise Abort('no base path %s -> %s' % (drec.get('name'), brec.get('name')))
        ds = self.struct_of(drec)
        if is_ptr:
            p = self.sub(inner)
        else:
            p = self.addr_of(inner)
        off = ('((%s *)((char *)(%s) - __builtin_offsetof(%s, %s)))' % (ds, p, ds, '.'.join(path))) if path else '((%s *)%s)' % (ds, p)
        return off if is_ptr else '(*%s)' % off

    # ---- references to declarations
    def declref(self, e):
        r = e['referencedDecl']
        rk = r['kind']
        if rk in FUNC_KINDS:
            d, has = self.request(r['id'])
            return self.fn_cname(d)
        if rk in ('ParmVarDecl', 'VarDecl'):
            decl = self.tu.byid.get(r['id'], r)
            name = r.get('name') or self.unnamed_param(decl)
            t = decl.get('type', r.get('type', {}))
            if rk == 'VarDecl' and self.is_global(decl):
                name = self.global_var(decl)
                if self.is_ref(t):
                    return '(*%s)' % name
                return name
            if self.cur_lambda is not None and r['id'] in self.cur_lambda['caps']:
                base = '(*__cl->cap_%s)' % name
                return '(*%s)' % base if self.is_ref(t) else base
            if self.is_ref(t):
                return '(*%s)' % name
            return name
        if rk == 'EnumConstantDecl':
            d = self.tu.byid.get(r['id'], r)
            v = self.const_value(d)
            if v is None:
                v = self.enum_implicit_value(d)
            return '%s /*%s*/' % (v, r['name'])
        if rk == 'BindingDecl':
            raise Abort('structured binding')
        if rk == 'NonTypeTemplateParmDecl':
            raise Abort('reference to template parameter (uninstantiated code?)')
        raise Abort('declref to ' + rk)

    def const_value(self, n):
        if 'value' in n and n.get('kind') in ('ConstantExpr', 'IntegerLiteral', 'CXXBoolLiteralExpr'):
            v = n['value']
            return ('1' if v else '0') if isinstance(v, bool) else str(v)
        for c in n.get('inner', ()):
            v = self.const_value(c)
            if v is not None:
                return v
        return None

    def enum_implicit_value(self, d):
        p = self.tu.parent.get(d['id'])
        v = -1
        for c in p.get('inner', ()):
            if c.get('kind') != 'EnumConstantDecl':
                continue
            cv = self.const_value(c)
            v = int(cv) if cv is not None else v + 1
            if c['id'] == d['id']:
                return str(v)
        raise Abort('enum constant value')

    def is_global(self, decl):
        p = self.tu.parent.get(decl.get('id'))
        pid = decl.get('parentDeclContextId')
        if pid and pid in self.tu.byid:
            p = self.tu.byid[pid]
        while p is not None and p.get('kind') in ('LinkageSpecDecl', 'VarTemplateDecl'):
            p = self.tu.parent.get(p.get('id'))
        return p is not None and p.get('kind') in ('NamespaceDecl', 'TranslationUnitDecl') + REC_KINDS

    def global_var(self, decl):
        # prefer the definition (with initialiser) among redeclarations
        did = decl['id']
        best = decl
        for nid, n in self.tu.byid.items():
            if n.get('kind') == 'VarDecl' and n.get('name') == decl.get('name') and n.get('init') and \
                    (n.get('previousDecl') == did or nid == did or
                     (decl.get('mangledName') is not None and n.get('mangledName') == decl.get('mangledName'))):
                best = n
                break
        if best.get('parentDeclContextId') in self.tu.byid:
            p = self.tu.byid[best['parentDeclContextId']]
        elif decl.get('parentDeclContextId') in self.tu.byid:
            p = self.tu.byid[decl['parentDeclContextId']]
        else:
            p = self.tu.parent.get(best['id']) or self.tu.parent.get(decl['id'])
        while p is not None and p.get('kind') in ('LinkageSpecDecl', 'VarTemplateDecl'):
            p = self.tu.parent.get(p.get('id'))
        pre = self.tu.scope_name(p) if p is not None and p.get('kind') in ('NamespaceDecl',) + REC_KINDS else ''
        cn = ('g_' + pre + '__' if pre else 'g_') + decl['name']
        key = cn
        if key not in self.globals:
            self.globals[key] = None
            t = best['type']
            text = self.cdecl(t, cn)
            inits = [c for c in best.get('inner', ()) if 'Comment' not in c.get('kind', '') and c.get('kind') != 'TemplateArgument'
                     and not c.get('kind', '').endswith('Attr')]
            q = t.get('qualType', '')
            is_const = bool(re.search(r'^const\b|\bconst$', q.strip())) or best.get('constexpr')
            dynamic = False
            if inits and best.get('init') and is_const and self.rec_of_type_safe(t) is None and not best.get('constexpr') \
                    and inits[0].get('kind') not in ('ConstantExpr', 'IntegerLiteral') and self.has_call(inits[0]):
                dynamic = True
                save = (self.pre, getattr(self, 'stmt_calls_may_throw', False), self.cur_lambda, self.cur_top)
                self.pre, self.cur_lambda = [], None
                if not hasattr(self, 'calls'):
                    self.calls, self.stats = [], {}
                v = self.expr(inits[0], top=self.top_call(inits[0]))
                if self.pre:
                    raise Abort('global initialiser needs statements: ' + decl['name'])
                self.pre, self.stmt_calls_may_throw, self.cur_lambda, self.cur_top = save
                self.global_inits.append('%s = %s;' % (cn, v))
                text = text + ';  /* dynamically initialised: see __verif_static_init */'
            elif inits and best.get('init') and is_const and self.rec_of_type_safe(t) is None:
                save = (self.pre, getattr(self, 'stmt_calls_may_throw', False), self.cur_lambda)
                self.pre, self.cur_lambda = [], None
                cv = self.const_value(inits[0]) if inits[0].get('kind') == 'ConstantExpr' else None
                v = cv if cv is not None else self.expr(inits[0])
                if self.pre:
                    raise Abort('global initialiser needs statements: ' + decl['name'])
                self.pre, self.stmt_calls_may_throw, self.cur_lambda = save
                # emitted as a macro: CBMC initialises static objects in an order of its own, so a constant that
                # is defined in terms of another constant would read 0
                text = '#define %s ((%s)(%s))' % (cn, self.ctype(t), v)
            else:
                text = text + ';'
            self.globals[key] = (cn, text)
            self.global_order.append(key)
        return cn

    def has_call(self, n):
        if n.get('kind') in ('CallExpr', 'CXXMemberCallExpr', 'CXXOperatorCallExpr', 'CXXConstructExpr'):
            return True
        return any(self.has_call(c) for c in n.get('inner', ()))

    def member(self, e):
        base = e['inner'][0]
        mid = e.get('referencedMemberDecl')
        md = self.tu.byid.get(mid)
        if md is not None and md.get('kind') in FUNC_KINDS:
            raise Abort('bound member function outside a call')
        if md is not None and md.get('kind') == 'VarDecl':
            # static data member accessed through an object
            return self.declref({'referencedDecl': md})
        if md is not None and md.get('kind') == 'EnumConstantDecl':
            return self.declref({'referencedDecl': md})
        name = e['name']
        if md is not None:
            owner = self.tu.parent.get(mid)
            if owner is not None and owner.get('kind') in REC_KINDS:
                self.struct_of(owner)
        if e.get('isArrow'):
            b = self.sub(base)
            s = '%s->%s' % (b, name)
        else:
            b = self.sub(base)
            s = '%s.%s' % (b, name)
        if md is not None and self.is_ref(md.get('type', {})):
            return '(*%s)' % s
        return s

    def init_list(self, e):
        t = e['type']
        rec = self.rec_of_type_safe(t)
        if rec is None:
            if len(e.get('inner', ())) == 1:
                return self.sub(e['inner'][0])
            if not e.get('inner'):
                ct = self.ctype(t)
                return ('(%s){0}' % ct) if ct.startswith('struct ') else '((%s)0)' % ct
            raise Abort('init list of non-record type ' + t['qualType'])
        fields = [c for c in rec.get('inner', ()) if c.get('kind') == 'FieldDecl']
        items = []
        vals = e.get('inner', [])
        for f, v in zip(fields, vals):
            if self.is_ref(f['type']):
                items.append(self.addr_of(v))
            else:
                items.append(self.sub(v))
        def empty_init(v):
            v = self.strip(v)
            return v['kind'] in ('ImplicitValueInitExpr', 'CXXScalarValueInitExpr') or (v['kind'] in ('InitListExpr', 'CXXConstructExpr') and all(empty_init(c) for c in v.get('inner', ())))
        if rec.get('bases') and all(empty_init(v) for v in vals) and not fields:
            return '(%s){0}' % self.struct_of(rec)      # empty tag object
        if rec.get('bases'):
            raise Abort('aggregate initialisation of a class with bases: ' + t.get('qualType', ''))
        return '(%s){%s}' % (self.struct_of(rec), ', '.join(items) or '0')

    # ---- calls
    def callee_fn(self, callee):
        c = callee
        while c['kind'] in TRANSPARENT or c['kind'] == 'ImplicitCastExpr':
            c = c['inner'][0]
        if c['kind'] == 'DeclRefExpr' and c['referencedDecl']['kind'] in FUNC_KINDS:
            return c['referencedDecl']['id']
        if c['kind'] == 'MemberExpr' and c.get('referencedMemberDecl'):
            return c['referencedMemberDecl']
        return None

    def default_arg(self, fn, i):
        q = fn
        seen = set()
        chain = [fn]
        f0 = self.tu.byid.get(self.tu.first.get(fn['id'], fn['id']))
        # walk all redeclarations
        for nid, first in self.tu.first.items():
            if first == f0['id'] and nid not in seen:
                seen.add(nid)
                chain.append(self.tu.byid[nid])
        for q in chain:
            ps = self.tu.params(q)
            if i < len(ps):
                init = [c for c in ps[i].get('inner', ()) if 'Comment' not in c.get('kind', '') and not c.get('kind', '').endswith('Attr')]
                if init:
                    return init[0]
        raise Abort('default argument %d of %s not found' % (i, fn.get('name')))

    def args(self, fn, args):
        out = []
        ps = self.tu.params(fn) if fn else []
        for i, a in enumerate(args):
            if a['kind'] == 'CXXDefaultArgExpr':
                a = self.default_arg(fn, i)
            if i < len(ps) and self.is_ref(ps[i]['type']):
                out.append(self.addr_of(a))
            else:
                out.append(self.arg_value(a))
        return out

    def arg_value(self, a):
        return self.sub(a)

    def finish_call(self, e, d, text, discard):
        """common tail: exception bookkeeping, reference results, hoisting of nested throwing calls"""
        self.calls.append(self.fn_cname(d))
        ref = self.returns_ref(d) if d['kind'] not in ('CXXConstructorDecl', 'CXXDestructorDecl') else False
        if self.may_throw(d):
            if e.get('id') is not None and e.get('id') == self.cur_top:
                self.stmt_calls_may_throw = True
            else:
                rt = self.ret_ctype(d)
                if rt == 'void':
                    self.pre.append(text + ';')
                    self.pre.append(self.exc_check())
                    return '((void)0)'
                t = self.tmp('call')
                self.pre.append('%s %s = %s;' % (rt, t, text))
                self.pre.append(self.exc_check())
                text = t
        if ref:
            if discard:
                # `x = y;` / `f();` as a statement: the reference result is not used. (Emitting `(*f());` made CBMC drop every
                # path through the statement -- a partial vacuity no end-of-harness canary can see.)
                return text
            return '(*%s)' % text
        return text

    BUILTIN_IDENTITY = ('move', 'forward', 'addressof_not')

    def call(self, e, discard=False):
        callee = e['inner'][0]
        args = e['inner'][1:]
        fid = self.callee_fn(callee)
        if fid is None:
            return self.indirect_call(e, callee, args)
        fn0 = self.tu.byid.get(self.tu.first.get(fid, fid)) or self.tu.byid.get(fid)
        nm = fn0.get('name')
        par = self.tu.semantic_parent(fn0)
        ns = par.get('name') if par is not None and par.get('kind') == 'NamespaceDecl' else None
        if nm in ('move', 'forward') and len(args) == 1:
            # std::move / detail::move / forward: identity on the referenced object
            a = self.addr_of(args[0])
            return '(*%s)' % a
        if nm == 'addressof' and ns == 'std' and len(args) == 1:
            return self.addr_of(args[0])
        if nm == 'declval':
            raise Abort('declval evaluated')
        if nm in ('swap', 'adl_swap') and len(args) == 2:
            t = args[0]['type']
            srec = self.rec_of_type_safe(t)
            if srec is None or (self.trivially_copyable(srec) and nm == 'swap' and ns == 'std'):
                a, b = self.addr_of(args[0]), self.addr_of(args[1])
                tv = self.tmp('sw')
                self.pre.append('%s = *%s; *%s = *%s; *%s = %s;' % (self.cdecl(t, tv), a, a, b, b, tv))
                return '((void)0)'
            if nm == 'adl_swap':
                pass
        if nm in ('abort', 'terminate', 'handle_failed_assert', 'quick_exit', '_Exit', 'exit'):
            return '__verif_stop("%s")' % nm
        d, has = self.request(fid)
        text = '%s(%s)' % (self.fn_cname(d), ', '.join(self.args(d, args)))
        return self.finish_call(e, d, text, discard)

    def indirect_call(self, e, callee, args):
        """getter()(args): call of the function pointer returned by a getter -> abstract function getter__invoke(args)"""
        c = callee
        while c['kind'] in TRANSPARENT or c['kind'] == 'ImplicitCastExpr':
            c = c['inner'][0]
        if c['kind'] != 'CallExpr' or len(c['inner']) != 1:
            raise Abort('indirect call (function pointer / dependent callee)')
        gid = self.callee_fn(c['inner'][0])
        if gid is None:
            raise Abort('indirect call through a computed callee')
        getter = self.tu.byid.get(self.tu.first.get(gid, gid))
        name = self.fn_cname(getter) + '__invoke'
        q = (c['type'].get('desugaredQualType') or c['type']['qualType']).strip()
        m = re.match(r'^(.*?)\s*\(\*\)\s*\((.*)\)(\s*noexcept)?$', q)
        if not m:
            raise Abort('indirect call: cannot parse function pointer type ' + q)
        ptypes = split_top(m.group(2))
        ret = self.ctype_s(m.group(1))
        cargs = []
        for pt, a in zip(ptypes, args):
            if pt.strip().endswith('&'):
                cargs.append(self.addr_of(a))
            else:
                cargs.append(self.sub(a))
        sig = '%s %s(%s)' % (ret, name, ', '.join('%s __a%d' % (self.ctype_s(pt), i) for i, pt in enumerate(ptypes)) or 'void')
        self.extra_protos[name] = sig
        self.calls.append(name)
        text = '%s(%s)' % (name, ', '.join(cargs))
        if not m.group(3):
            # handlers may throw (or never return)
            if e.get('id') is not None and e.get('id') == self.cur_top:
                self.stmt_calls_may_throw = True
            else:
                self.pre.append(text + ';')
                self.pre.append(self.exc_check())
                return '((void)0)'
        return text

    def member_call(self, e, discard=False):
        me = self.strip(e['inner'][0])
        if me['kind'] != 'MemberExpr':
            raise Abort('member call through ' + me['kind'])
        mid = me['referencedMemberDecl']
        md = self.tu.byid.get(mid)
        if md is None:
            raise Abort('member call to unknown decl')
        if md.get('virtual') or md.get('pure'):
            # dynamic dispatch is not modelled. A virtual INTERFACE function that the unit declares @abstract is called as an
            # abstract leaf (its contract speaks for whatever overrider runs); everything else is an extraction break
            try:
                vname = self.fn_cname(md)
            except Exception:
                vname = None
            if vname is None or vname not in self.abstract:
                raise Abort('virtual call ' + md.get('name', ''))
        obj = me['inner'][0]
        if md['kind'] == 'CXXDestructorDecl':
            rec = self.tu.class_of(md)
            this = self.sub(obj) if me.get('isArrow') else self.addr_of(obj)
            if not self.has_nontrivial_dtor(rec):
                return '((void)0)'
            return self.dtor_call(rec, this).rstrip(';')
        st = self.atomic_member(md, me, obj, e)
        if st is not None:
            return st
        d, has = self.request(mid)
        if not self.is_instance_member(d):
            text = '%s(%s)' % (self.fn_cname(d), ', '.join(self.args(d, e['inner'][1:])))
            return self.finish_call(e, d, text, discard)
        this = self.sub(obj) if me.get('isArrow') else self.addr_of(obj)
        text = '%s(%s)' % (self.fn_cname(d), ', '.join([this] + self.args(d, e['inner'][1:])))
        return self.finish_call(e, d, text, discard)

    def atomic_member(self, md, me, obj, e):
        cls = self.tu.class_of(md)
        if cls is None:
            return None
        cn = cls.get('name', '')
        if cn not in ('atomic', '__atomic_base', '__atomic_float'):
            return None
        o = self.sub(obj) if not me.get('isArrow') else '(*%s)' % self.sub(obj)
        nm = md.get('name')
        a = [x for x in e['inner'][1:] if x['kind'] != 'CXXDefaultArgExpr']
        if nm == 'load' or md['kind'] == 'CXXConversionDecl':
            return o
        if nm == 'store':
            return '(%s = %s)' % (o, self.sub(a[0]))
        if nm == 'exchange':
            t = self.tmp('xchg')
            self.pre.append('%s = %s; %s = %s;' % (self.cdecl(e['type'], t), o, o, self.sub(a[0])))
            return t
        if nm in ('compare_exchange_weak', 'compare_exchange_strong'):
            exp = self.addr_of(a[0])
            des = self.sub(a[1])
            t = self.tmp('cas')
            self.pre.append('_Bool %s = (%s == *%s); if (%s) %s = %s; else *%s = %s;' % (t, o, exp, t, o, des, exp, o))
            return t
        if nm in ('fetch_add', 'fetch_sub'):
            t = self.tmp('fa')
            self.pre.append('%s = %s; %s %s= %s;' % (self.cdecl(e['type'], t), o, o, '+' if nm == 'fetch_add' else '-', self.sub(a[0])))
            return t
        if nm in ('operator++', 'operator--'):
            op = nm[-2:]
            return '(%s%s)' % (o, op) if a else '(%s%s)' % (op, o)
        if nm in ('operator+=', 'operator-=', 'operator='):
            return '(%s %s %s)' % (o, nm[8:], self.sub(a[0]))
        raise Abort('std::atomic member ' + str(nm))

    def operator_call(self, e, discard=False):
        callee = e['inner'][0]
        fid = self.callee_fn(callee)
        if fid is None:
            raise Abort('operator call without resolved callee')
        md = self.tu.byid.get(fid) or {}
        args = e['inner'][1:]
        cls = self.tu.class_of(md) if md.get('kind') == 'CXXMethodDecl' else None
        if cls is not None and cls.get('name') in ('less', 'greater', 'less_equal', 'greater_equal') and len(args) == 3 \
                and (self.tu.semantic_parent(cls) or {}).get('name') == 'std':
            # std::less<T*> etc.: libstdc++ compares the uintptr_t values
            op = {'less': '<', 'greater': '>', 'less_equal': '<=', 'greater_equal': '>='}[cls['name']]
            return '((unsigned long)%s %s (unsigned long)%s)' % (self.sub(args[1]), op, self.sub(args[2]))
        if md.get('kind') == 'CXXMethodDecl' and self.is_instance_member(md):
            fake_me = {'isArrow': False}
            st = self.atomic_member(md, fake_me, args[0], {'inner': [None] + args[1:], 'type': e['type']})
            if st is not None:
                return st
            if (md.get('isImplicit') or md.get('explicitlyDefaulted')) and md.get('name') == 'operator=':
                rec = self.tu.class_of(md)
                if rec is not None and self.trivially_copyable(rec):
                    return '(%s = %s)' % (self.sub(args[0]), self.sub(args[1]))
            d, has = self.request(fid)
            this = self.addr_of(args[0])
            text = '%s(%s)' % (self.fn_cname(d), ', '.join([this] + self.args(d, args[1:])))
            return self.finish_call(e, d, text, discard)
        d, has = self.request(fid)
        text = '%s(%s)' % (self.fn_cname(d), ', '.join(self.args(d, args)))
        return self.finish_call(e, d, text, discard)

    def new_expr(self, e):
        inner = e.get('inner', [])
        if not e.get('isPlacement') and not any(True for _ in ()):
            pass
        # placement new: (placement args..., construct expr)
        ctor = None
        place = []
        if not e.get('isPlacement') or e.get('isArray'):
            raise Abort('non-placement new / array new')
        alloc_t = re.sub(r'\s*\*$', '', (e['type'].get('qualType') or '').strip())
        for c in inner:
            sc = self.strip(c)
            if ctor is None and sc['kind'] in ('CXXConstructExpr', 'CXXTemporaryObjectExpr') and \
                    re.sub(r'\bconst\b', '', sc['type']['qualType']).strip() == alloc_t:
                ctor = sc
            else:
                place.append(c)
        if len(place) != 1:
            raise Abort('non-placement new / array new')
        p = self.sub(place[0])
        q = (e['type'].get('desugaredQualType') or e['type']['qualType']).strip()
        pt = self.ctype(e['type'])
        t = self.tmp('new')
        self.pre.append('%s %s = (%s)%s;' % (pt, t, pt, p))
        if ctor is not None:
            rec = self.rec_of_type(ctor['type'])
            if not self.is_trivial_construct(ctor, rec):
                st = self.stmt_calls_may_throw
                self.pre.append(self.construct_into(t, ctor, rec) + ';')
                if self.stmt_calls_may_throw and not st:
                    self.pre.append(self.exc_check())
                    self.stmt_calls_may_throw = st
            elif ctor.get('inner'):
                self.pre.append('*%s = %s;' % (t, self.sub(ctor['inner'][0])))
        elif inner and inner[-1] is not place[0]:
            self.pre.append('*%s = %s;' % (t, self.sub(inner[-1])))
        return t

    # ---- lambdas
    def closure_info(self, rec):
        rec = self.tu.lambda_canon(rec)
        rid = rec['id']
        if rid in self.closures:
            return self.closures[rid]
        op = [c for c in rec.get('inner', ()) if c.get('kind') == 'CXXMethodDecl' and c.get('name') == 'operator()']
        if len(op) != 1:
            raise Abort('lambda without a single operator()')
        body = op[0]
        inside = set()
        caps = {}
        uses_this = [False]

        def collect_decls(n):
            if n.get('kind') in ('VarDecl', 'ParmVarDecl') and 'id' in n:
                inside.add(n['id'])
            for c in n.get('inner', ()):
                collect_decls(c)

        def collect_refs(n):
            if n.get('kind') == 'DeclRefExpr':
                r = n['referencedDecl']
                if r['kind'] in ('VarDecl', 'ParmVarDecl') and r['id'] not in inside:
                    d = self.tu.byid.get(r['id'], r)
                    if not (r['kind'] == 'VarDecl' and self.is_global(d)):
                        caps[r['id']] = d
            if n.get('kind') == 'CXXThisExpr':
                uses_this[0] = True
            for c in n.get('inner', ()):
                collect_refs(c)
        collect_decls(body)
        collect_refs(body)
        # enclosing class for `this`
        encl = None
        p = self.tu.parent.get(rid)
        while p is not None:
            if p.get('kind') in FUNC_KINDS:
                encl = self.tu.class_of(p)
                break
            p = self.tu.parent.get(p.get('id')) if p.get('id') else None
        info = dict(caps=caps, this=uses_this[0], encl=encl, op=body, rec=rec)
        self.closures[rid] = info
        return info

    def closure_fields(self, rec):
        info = self.closure_info(rec)
        out = []
        for cid, d in info['caps'].items():
            out.append('  %s *cap_%s;' % (self.ctype(d['type']), d['name']))
        if info['this']:
            if info['encl'] is None:
                raise Abort('lambda captures this outside a member function')
            out.append('  %s *self;' % self.struct_of(info['encl']))
        return out

    def lambda_expr(self, e):
        rec = e['inner'][0]
        if rec.get('kind') != 'CXXRecordDecl':
            raise Abort('lambda without closure record')
        info = self.closure_info(rec)
        st = self.struct_of(rec)
        items = []
        for cid, d in info['caps'].items():
            # address of the captured variable as seen from the enclosing function
            if self.cur_lambda is not None and cid in self.cur_lambda['caps']:
                items.append('.cap_%s = __cl->cap_%s' % (d['name'], d['name']))
            else:
                items.append('.cap_%s = &%s' % (d['name'], d['name']))
        if info['this']:
            items.append('.self = %s' % ('__cl->self' if self.cur_lambda is not None else 'self'))
        if not items:
            items = ['0']
        return '(%s){%s}' % (st, ', '.join(items))

    # ================================================================== driver
    def run(self, roots):
        for r in roots:
            self.request(r['id'])
        while self.todo:
            fn = self.todo.pop()
            cn = self.fn_cname(fn)
            if cn in self.funcs:
                continue
            self.emit_fn(fn)

    def exc_prelude(self):
        """exception class ids and EXC_ISA_<base> family tests for every class deriving from std::exception"""
        recs = {}
        for name, lst in self.records().items():
            for r in lst:
                recs[self.rec_cname(r)] = r

        def bases(r):
            out = []
            for b in r.get('bases', []) or []:
                try:
                    out.append(self.rec_by_name(b['type'].get('desugaredQualType') or b['type']['qualType']))
                except Abort:
                    pass
            return out

        def ancestors(r, acc):
            for b in bases(r):
                cn = self.rec_cname(b)
                if cn not in acc:
                    acc.add(cn)
                    ancestors(b, acc)
            return acc
        exc = {}
        for cn, r in recs.items():
            anc = ancestors(r, set())
            if 'std__exception' in anc or cn == 'std__exception':
                exc[cn] = anc
        lines = ['/* exception classes (ghost flag __exc holds the id of the exception in flight, 0 = none) */',
                 '#define EXC_unknown 1']
        ids = {cn: i + 2 for i, cn in enumerate(sorted(exc))}
        for cn in sorted(exc):
            lines.append('#define EXC_%s %d' % (cn, ids[cn]))
        for cn in sorted(exc):
            fam = [c for c in sorted(exc) if c == cn or cn in exc[c]]
            lines.append('#define EXC_ISA_%s(e) (%s)' % (cn, ' || '.join('(e) == EXC_%s' % f for f in fam)))
        for cn in self.exc_classes:
            if cn not in exc:
                lines.append('#define EXC_%s %d' % (cn, 1000 + len(lines)))
                lines.append('#define EXC_ISA_%s(e) ((e) == EXC_%s)' % (cn, cn))
        return lines

    def output(self, contracts=None, loops=None, prelude='', with_exc=True):
        """assemble the C text. contracts: cname -> contract clause text; loops: (cname, n) -> loop contract text"""
        contracts = contracts or {}
        loops = loops or {}
        out = []
        out.append('/* generated by cxx2c from the clang AST of the current /repo tree -- do not edit */')
        out.append('#include <stddef.h>\n#include <stdint.h>\n#include <string.h>\n#include <stdlib.h>')
        have = set(self.structs[r][0] for r in self.struct_order)
        for tn in ('std__integral_constant_bool_1', 'std__integral_constant_bool_0'):
            if tn not in have:
                out.append('struct %s { char __empty; };' % tn)
        out.append('extern int __exc;')
        out.append('void __verif_stop(const char *why);')
        if with_exc:
            out += self.exc_prelude()
        for cn in sorted(self.opaque):
            out.append('struct %s;  /* incomplete type in this unit */' % cn)
        for rid in self.struct_order:
            out.append('struct %s;' % self.structs[rid][0])
        for rid in self.struct_order:
            out.append(self.structs[rid][1])
        for key in self.global_order:
            out.append(self.globals[key][1])
        out.append(prelude)
        used_contracts = set()
        for cn, d in sorted(self.protos.items()):
            if cn in self.funcs:
                continue
            sig = self.signature(d)
            c = contracts.get(cn)
            if c is not None:
                used_contracts.add(cn)
                out.append(sig + '\n' + c + '\n;')
            else:
                out.append(sig + ';  /* no body in this unit, no contract */')
        for cn, sig in sorted(self.extra_protos.items()):
            c = contracts.get(cn)
            if c is not None:
                used_contracts.add(cn)
            out.append(sig + ('\n' + c + '\n' if c else '') + ';  /* call through the function pointer returned by the getter */')
        for cn in self.func_order:
            out.append(self.funcs[cn]['sig'] + ';')
        out.append('/* dynamic initialisers of namespace-scope / static member constants */')
        out.append('void __verif_static_init(void)\n{\n' + '\n'.join('  ' + x for x in self.global_inits) + '\n}\n')
        for cn in self.func_order:
            f = self.funcs[cn]
            body = []
            for line in f['body']:
                m = re.match(r'^(\s*)/\*@LOOP (\d+)@\*/$', line)
                if m:
                    lc = loops.get((cn, int(m.group(2))))
                    if lc:
                        body += [m.group(1) + x for x in lc.strip().split('\n')]
                        used_contracts.add((cn, int(m.group(2))))
                    continue
                body.append(line)
            c = contracts.get(cn)
            loc = f['loc']
            out.append('/* %s:%s */' % (loc[0], loc[1]))
            if c is not None:
                used_contracts.add(cn)
                out.append(f['sig'] + '\n' + c + '\n{\n' + '\n'.join(body) + '\n}\n')
            else:
                out.append(f['sig'] + '\n{\n' + '\n'.join(body) + '\n}\n')
        self.used_contracts = used_contracts
        return '\n'.join(out)

    def meta(self):
        m = {}
        for cn in self.func_order:
            f = self.funcs[cn]
            m[cn] = dict(file=f['loc'][0], line=f['loc'][1], loops=f['loops'], ast_nodes=sum(f['stats'].values()),
                         calls=sorted(set(f['calls'])), qualname=self.tu.cxx_qualname(f['decl']),
                         type=f['decl']['type']['qualType'])
        return m


def main():
    import argparse
    ap = argparse.ArgumentParser()
    ap.add_argument('ast')
    ap.add_argument('roots', nargs='+')
    ap.add_argument('--abstract', default='')
    a = ap.parse_args()
    tu = TU.load(a.ast)
    em = Emitter(tu, abstract=[x for x in a.abstract.split(',') if x])
    roots = []
    for spec in a.roots:
        fs = tu.find_functions(spec)
        if len(fs) != 1:
            raise Abort('root %s matches %d functions: %s' % (spec, len(fs), [em.fn_cname(f) for f in fs]))
        roots += fs
    em.run(roots)
    print(em.output())
    sys.stderr.write(json.dumps(em.meta(), indent=1)[:3000] + '\n')


if __name__ == '__main__':
    try:
        main()
    except Abort as a:
        sys.stderr.write('ABORT: %s\n' % a)
        sys.exit(2)
