"""Pipeline: /repo working tree -> clang JSON AST -> cxx2c -> C with contracts -> goto-cc/goto-instrument/cbmc."""
import os, sys, re, json, time, shutil, subprocess, tempfile, hashlib, pickle, resource
from concurrent.futures import ThreadPoolExecutor

HERE = os.path.dirname(os.path.abspath(__file__))
VERIF = os.path.dirname(HERE)
REPO = os.environ.get('VERIF_REPO', '/repo')
sys.path.insert(0, HERE)
from tu import TU, Abort            # noqa
from cxx2c import Emitter           # noqa
import spec as specmod              # noqa

CONFIGS = {
    #        ASSERT FILL FENCE LEAK PTR DOUBLE
    'rel':   (0, 0, 0, 0, 0, 0),
    'base':  (0, 1, 0, 1, 1, 0),
    'dbg8':  (1, 1, 8, 1, 1, 1),
    'dbg16': (1, 1, 16, 1, 1, 1),
}
CBMC_CHECKS = ['--bounds-check', '--pointer-check', '--pointer-overflow-check', '--conversion-check',
               '--undefined-shift-check', '--div-by-zero-check', '--signed-overflow-check']
MEM_LIMIT_KB = 12 * 1024 * 1024


class Undecided(Exception):
    """tool failure, timeout, extraction break: exit 2, never a violation"""


def limits():
    resource.setrlimit(resource.RLIMIT_AS, (MEM_LIMIT_KB * 1024, MEM_LIMIT_KB * 1024))


def run_portfolio(cmds, timeout, wd):
    t0 = time.time()
    procs = []
    for i, c in enumerate(cmds):
        fo = open(os.path.join(wd, 'cbmc_out_%d.json' % i), 'wb')
        d = os.path.join(wd, 'tmp_%d' % i)
        os.makedirs(d, exist_ok=True)
        env = dict(os.environ, TMPDIR=d)
        procs.append((subprocess.Popen(c, stdout=fo, stderr=subprocess.DEVNULL, preexec_fn=limits, env=env, cwd=d), fo))
    winner = None
    try:
        while time.time() - t0 < timeout:
            for i, (pr, fo) in enumerate(procs):
                rc = pr.poll()
                if rc is not None and rc in (0, 10):
                    winner = i
                    break
            if winner is not None:
                break
            if all(pr.poll() is not None for pr, _ in procs):
                # all finished without a verdict: report the first
                winner = 0
                break
            time.sleep(0.2)
    finally:
        for pr, fo in procs:
            if pr.poll() is None:
                pr.kill()
            try:
                pr.wait(timeout=10)
            except Exception:
                pass
            fo.close()
    dt = time.time() - t0
    if winner is None:
        return -9, '', 'TIMEOUT after %ss' % timeout, dt, None
    out = open(os.path.join(wd, 'cbmc_out_%d.json' % winner), 'rb').read().decode('utf-8', 'replace')
    return procs[winner][0].returncode, out, '', dt, winner


def run(cmd, timeout=600, cwd=None, limit=True):
    t0 = time.time()
    try:
        p = subprocess.run(cmd, stdout=subprocess.PIPE, stderr=subprocess.PIPE, timeout=timeout, cwd=cwd,
                           preexec_fn=limits if limit else None)
        return p.returncode, p.stdout.decode('utf-8', 'replace'), p.stderr.decode('utf-8', 'replace'), time.time() - t0
    except subprocess.TimeoutExpired:
        return -9, '', 'TIMEOUT after %ss' % timeout, time.time() - t0


# ---------------------------------------------------------------------------------- configuration headers
import threading
_cfg_lock = threading.Lock()


def gen_config(workdir, cfg):
    with _cfg_lock:
        return _gen_config(workdir, cfg)


def _gen_config(workdir, cfg):
    d = os.path.join(workdir, 'config_' + cfg)
    if os.path.exists(os.path.join(d, 'container_node_sizes_impl.hpp')):
        return d            # already generated in this run (units are built concurrently)
    os.makedirs(d, exist_ok=True)
    a, fill, fence, leak, ptr, dbl = CONFIGS[cfg]
    vals = {
        'FOONATHAN_MEMORY_CHECK_ALLOCATION_SIZE': 1, 'FOONATHAN_MEMORY_DEBUG_ASSERT': a, 'FOONATHAN_MEMORY_DEBUG_FILL': fill,
        'FOONATHAN_MEMORY_DEBUG_LEAK_CHECK': leak, 'FOONATHAN_MEMORY_DEBUG_POINTER_CHECK': ptr,
        'FOONATHAN_MEMORY_DEBUG_DOUBLE_DEALLOC_CHECK': dbl, 'FOONATHAN_MEMORY_EXTERN_TEMPLATE': 0,
    }
    subst = {'FOONATHAN_MEMORY_DEFAULT_ALLOCATOR': 'heap_allocator', 'FOONATHAN_MEMORY_DEBUG_FENCE': str(fence),
             'FOONATHAN_MEMORY_TEMPORARY_STACK_MODE': '2'}
    src = open(os.path.join(REPO, 'src', 'config.hpp.in')).read()

    def cmdef(m):
        return '#define %s %d' % (m.group(1), vals.get(m.group(1), 0))
    src = re.sub(r'#cmakedefine01 (\w+)', cmdef, src)
    src = re.sub(r'\$\{(\w+)\}', lambda m: subst.get(m.group(1), '0'), src)
    open(os.path.join(d, 'config_impl.hpp'), 'w').write(src)
    cns = os.path.join(REPO, '_build', 'src', 'container_node_sizes_impl.hpp')
    dst = os.path.join(d, 'container_node_sizes_impl.hpp')
    if os.path.exists(cns):
        shutil.copy(cns, dst)
    else:
        open(dst, 'w').write('// not generated: no configured build tree\n')
    return d


def clang_args(cfgdir):
    return ['-std=gnu++17', '-fsyntax-only', '-DFOONATHAN_MEMORY=1', '-DFOONATHAN_MEMORY_VERSION_MAJOR=0',
            '-DFOONATHAN_MEMORY_VERSION_MINOR=7', '-DFOONATHAN_MEMORY_VERSION_PATCH=4', '-DFOONATHAN_MEMORY_VERIF_EXTRACT=1',
            '-I' + cfgdir, '-I' + os.path.join(REPO, 'include'), '-I' + os.path.join(REPO, 'include/foonathan/memory'),
            '-I' + os.path.join(REPO, 'src'), '-I' + os.path.join(VERIF, 'drivers'), '-Wno-everything']


def load_ast(src, cfgdir, workdir, tag, cxxdefs=()):
    args = clang_args(cfgdir) + ['-D' + d for d in cxxdefs]
    cache = os.environ.get('VERIF_AST_CACHE')
    key = None
    if cache:
        rc, out, err, _ = run(['clang++'] + [a for a in args if a != '-fsyntax-only'] + ['-E', src], limit=False)
        if rc == 0:
            key = hashlib.sha256(out.encode()).hexdigest()[:24]
            p = os.path.join(cache, key + '.pkl')
            if os.path.exists(p):
                try:
                    tu = pickle.load(open(p, 'rb'))
                    os.utime(p)          # least-recently-used pruning below
                    return tu
                except Exception:
                    pass
    out_json = os.path.join(workdir, tag + '.ast.json')
    with open(out_json, 'wb') as f:
        p = subprocess.run(['clang++'] + args + ['-Xclang', '-ast-dump=json', src], stdout=f, stderr=subprocess.PIPE)
    if p.returncode != 0:
        raise Undecided('clang front end failed on %s: %s' % (src, p.stderr.decode()[:2000]))
    tu = TU.load(out_json)
    os.unlink(out_json)
    if cache and key:
        os.makedirs(cache, exist_ok=True)
        try:
            sys.setrecursionlimit(100000)
            pickle.dump(tu, open(os.path.join(cache, key + '.pkl'), 'wb'), protocol=pickle.HIGHEST_PROTOCOL)
        except Exception:
            pass
        try:
            # the cache is keyed by the preprocessed text, so entries of earlier trees are dead weight: keep the 300 most recently used
            ents = sorted((os.path.getmtime(os.path.join(cache, f)), f) for f in os.listdir(cache) if f.endswith('.pkl'))
            if len(ents) > 400:
                for _, f in ents[:len(ents) - 300]:
                    try:
                        os.unlink(os.path.join(cache, f))
                    except OSError:
                        pass
        except OSError:
            pass
    return tu


PRELUDE = r'''
/* ---- verification prelude (ghost state; not part of the extracted code) ---- */
int __exc;
#ifndef VERIF_ALLOW_STOP
#define VERIF_ALLOW_STOP 0
#endif
void __verif_stop(const char *why)
{
  __CPROVER_assert(VERIF_ALLOW_STOP, "program stop reached (abort / failed assertion / std::terminate)");
  __CPROVER_assume(0);
}
#ifndef VERIF_WHERE
#define VERIF_WHERE 0
#endif
#ifdef VERIF_FINDING_ONLY
#define VERIF_EXCLUDE __CPROVER_assume(VERIF_WHERE)
#else
#define VERIF_EXCLUDE __CPROVER_assume(!(VERIF_WHERE))
#endif
#define VERIF_CANARY __CPROVER_assert(0, "VERIF-CANARY reachable end of harness")
#define IS_POW2(a) ((a) != 0 && (((a) & ((a) - 1)) == 0))
#define ADDR(p) ((unsigned long)(p))
'''


class BuiltUnit:
    pass


def build_unit(unit, cfg, workdir, extra_roots=()):
    """translate one unit under one configuration; returns BuiltUnit (c file path, meta)"""
    cfgdir = gen_config(workdir, cfg)
    src = os.path.join(REPO, unit.source) if unit.source else os.path.join(VERIF, unit.driver)
    if not os.path.exists(src):
        raise Undecided('unit source missing: ' + src)
    t0 = time.time()
    tu = load_ast(src, cfgdir, workdir, unit.name + '_' + cfg, unit.cxxdefs)
    em = Emitter(tu, abstract=unit.abstract)
    roots = []
    for sel in list(unit.roots) + list(extra_roots):
        sel_cfg = None
        if ' when=' in sel:
            sel, _, sel_cfg = sel.partition(' when=')
            if cfg not in sel_cfg.split(','):
                continue
        fs = tu.find_functions(sel.strip())
        if len(fs) != 1:
            raise Undecided('extraction break: root %r matches %d functions in %s (%s)' %
                            (sel, len(fs), src, [em.fn_cname(f) for f in fs][:5]))
        roots += fs
    try:
        em.run(roots)
        contracts = {}
        names = set(em.funcs) | set(em.protos) | set(em.extra_protos)
        for cn in names:
            c = unit.contract_for(cn, cfg)
            if c is not None:
                contracts[cn] = c
        cfg_defs = '\n'.join('#define CFG_%s %d' % (n, v) for n, v in zip(
            ('ASSERT', 'FILL', 'FENCE', 'LEAK', 'PTR_CHECK', 'DOUBLE_DEALLOC'), CONFIGS[cfg]))
        eo = ['#define ENFORCE_ONLY(f, clause) ENFORCE_ONLY_##f(clause)']
        for cn in sorted(names):
            eo.append('#ifdef ENFORCING_%s\n#define ENFORCE_ONLY_%s(c) c\n#else\n#define ENFORCE_ONLY_%s(c)\n#endif' % (cn, cn, cn))
        text = em.output(contracts=contracts, loops=unit.loops, prelude=cfg_defs + PRELUDE + '\n'.join(eo) + '\n' + unit.prelude)
    except Abort as a:
        raise Undecided('extraction break in unit %s [%s]: %s' % (unit.name, cfg, a))
    # (a missing enforce target is reported per group; shared include files may carry contracts for functions
    #  that a given unit does not reach)
    missing = []
    bu = BuiltUnit()
    bu.unit, bu.cfg, bu.em, bu.text, bu.missing = unit, cfg, em, text, missing
    bu.meta = em.meta()
    bu.seconds = time.time() - t0
    bu.workdir = workdir
    return bu


def harness_for(bu, g):
    """C text of the harness of group g"""
    name = 'h_' + g.name
    body = g.body.strip()
    if body:
        return body.replace('HARNESS', name)
    if not g.enforce:
        raise Undecided('group %s has neither harness nor enforce=' % g.name)
    f = bu.em.funcs.get(g.enforce)
    if f is None:
        raise Undecided('extraction break: function %s (group %s) not found in unit %s' % (g.enforce, g.name, bu.unit.name))
    sig = f['sig']
    m = re.match(r'^(.*?)\b(\w+)\((.*)\)$', sig, re.S)
    ret, params = m.group(1).strip(), m.group(3).strip()
    decls, args = [], []
    if params != 'void':
        from cxx2c import split_top
        for p in split_top(params):
            pm = re.match(r'^(.*?)(\w+)((\[\d+\])*)$', p.strip())
            decls.append('  %s;' % p.strip())
            args.append(pm.group(2))
    call = '%s(%s);' % (g.enforce, ', '.join(args))
    if ret != 'void':
        call = '%s __r = %s' % (ret, call)
    si = '' if any(re.search(r'\b%s\(' % re.escape(g.enforce), x) for x in bu.em.global_inits) else '__verif_static_init();'
    if g.attrs.get('static_init') == 'no':
        si = ''      # the unit's dynamic initialisers (e.g. a sysconf() call) are irrelevant to the group: the constants are pinned by requires clauses
    return 'void %s(void)\n{\n%s\n  __exc = 0;\n  %s\n  VERIF_EXCLUDE;\n  %s\n  VERIF_CANARY;\n}\n' % (name, '\n'.join(decls), si, call)


def solver_flags(g):
    s = g.solver
    if s == 'sat':
        return []
    if s == 'kissat':
        return ['--external-sat-solver', 'kissat']
    if s == 'cvc5':
        return ['--cvc5']
    if s == 'z3':
        return ['--z3']
    return []


def run_group(bu, g, extra_defs=(), label=None):
    """returns dict(result per property, times, logs)"""
    wd = tempfile.mkdtemp(prefix='g_', dir=bu.workdir)
    name = 'h_' + g.name
    cfile = os.path.join(wd, 'unit.c')
    try:
        harness = harness_for(bu, g)
    except Undecided as u:
        return dict(group=g.name, cfg=bu.cfg, label=label, status='undecided', reason=str(u), props=[], seconds=0)
    with open(cfile, 'w') as f:
        f.write(bu.text + '\n/* ---- harness of group %s ---- */\n' % g.name + harness)
    defs = ['-D' + d for d in list(g.defs) + list(extra_defs)]
    if g.stop_allowed:
        defs.append('-DVERIF_ALLOW_STOP=1')
    if g.enforce:
        defs.append('-DENFORCING_' + g.enforce)
    a_gb, b_gb = os.path.join(wd, 'a.gb'), os.path.join(wd, 'b.gb')
    t0 = time.time()
    res = dict(group=g.name, cfg=bu.cfg, label=label, props=[], cmds=[], wd=wd)
    rc, out, err, dt = run(['goto-cc', '--function', name] + defs + [cfile, '-o', a_gb], timeout=120)
    res['cmds'].append('goto-cc --function %s %s unit.c -o a.gb' % (name, ' '.join(defs)))
    if rc != 0 or not os.path.exists(a_gb):
        res.update(status='undecided', reason='goto-cc failed: ' + (err or out)[-1500:], seconds=time.time() - t0)
        return res
    gi = None
    if g.mode == 'dfcc':
        gi = ['goto-instrument', '--dfcc', name]
        if g.enforce:
            gi += ['--enforce-contract', g.enforce]
        present = set(bu.em.funcs) | set(bu.em.protos) | set(bu.em.extra_protos)
        # abstract functions of the unit (no body translated) are always replaced by their contracts
        repl = list(g.replace) + [a for a in bu.unit.abstract if a not in g.replace and a != g.enforce
                                  and bu.unit.contract_for(a, bu.cfg) is not None]
        for r in repl:
            if r in present and bu.unit.contract_for(r, bu.cfg) is not None:       # functions compiled out in this configuration (e.g. ASSERT-only helpers) are skipped
                gi += ['--replace-call-with-contract', r]
        if g.attrs.get('loops') == 'yes':
            gi += ['--apply-loop-contracts']
    elif g.mode == 'loops':
        gi = ['goto-instrument', '--apply-loop-contracts']
    if gi:
        rc, out, err, dt = run(gi + [a_gb, b_gb], timeout=300)
        res['cmds'].append(' '.join(gi + ['a.gb', 'b.gb']))
        if rc != 0 or not os.path.exists(b_gb):
            res.update(status='undecided', reason='goto-instrument failed: ' + (err + out)[-1500:], seconds=time.time() - t0)
            return res
        target = b_gb
    else:
        target = a_gb
    skip = set(g.attrs.get('skip_checks', '').split(','))
    cb = ['cbmc', os.path.abspath(target)] + [c for c in CBMC_CHECKS if c not in skip] + ['--object-bits', g.attrs.get('object_bits', '10')]
    if g.mode in ('plain', 'loops', 'unwind'):
        cb += ['--nondet-static']     # ghost globals are universally quantified, not zero (dfcc does this itself)
    if g.unwind:
        cb += ['--unwind', g.unwind, '--unwinding-assertions']
    if g.solver == 'sat' and os.environ.get('VERIF_PORTFOLIO', '1') == '1':
        # portfolio: CBMC's built-in SAT solver and kissat race on the same problem; the first verdict wins
        # (solver run times on these formulas vary by orders of magnitude between the two)
        rc, out, err, dt, winner = run_portfolio([cb, cb + ['--external-sat-solver', 'kissat']], g.timeout, wd)
        res['solver_used'] = ['minisat (built-in)', 'kissat'][winner] if winner is not None else None
        if winner == 1:
            cb = cb + ['--external-sat-solver', 'kissat']
    else:
        cb += solver_flags(g)
        rc, out, err, dt = run(cb, timeout=g.timeout)
    res['cmds'].append(' '.join(['cbmc', os.path.basename(target)] + cb[2:]))
    res['cbmc_seconds'] = dt
    res['seconds'] = time.time() - t0
    if rc == -9:
        res.update(status='undecided', reason='cbmc timeout after %ds' % g.timeout)
        return res
    # plain-text result list (the JSON UI always embeds counterexample traces, and printing the trace of the vacuity canary -- which
    # fails by design -- took minutes for some groups)
    props = []
    msgs = []
    cur_fn = None
    for line in out.split('\n'):
        m = re.match(r'^\[([^\]]+)\] (?:line (\d+) )?(.*): (SUCCESS|FAILURE|UNKNOWN|ERROR)$', line)
        if m:
            d = {'property': m.group(1), 'description': m.group(3), 'status': m.group(4)}
            if m.group(2):
                d['sourceLocation'] = {'line': m.group(2), 'function': cur_fn}
            props.append(d)
            continue
        m = re.match(r'^.* function (\S+)$', line)
        if m:
            cur_fn = m.group(1)
        if 'ignoring' in line:
            msgs.append('WARNING ' + line.strip())
    if not props:
        res.update(status='undecided', reason='cbmc gave no result list (rc=%s): %s' % (rc, (err + out)[-800:].replace('\n', ' | ')))
        return res
    if any('ignoring' in m for m in msgs):
        res.update(status='undecided', reason='cbmc ignored a quantifier: ' + ' | '.join(msgs)[:500])
        return res
    # counterexample traces are only produced when an obligation other than the vacuity canary failed (the canary fails by design and
    # its trace can be megabytes: printing it dominated the run time of some groups)
    if any(p.get('status') == 'FAILURE' and 'VERIF-CANARY' not in p.get('description', '') for p in props):
        cbt = cb[:2] + ['--trace', '--json-ui'] + cb[2:]
        rc2, out2, err2, dt2 = run(cbt, timeout=g.timeout)
        try:
            for item in json.loads(out2):
                if 'result' in item:
                    props = item['result']
        except Exception:
            pass        # (trace run timed out or was cut: the plain result list stands, without input values)
    res['props'] = props
    res['status'] = 'done'
    if os.environ.get('VERIF_COVER') == '1':
        res['unreached'] = cover_group(bu, g, target, cfile, wd)
    return res


def cover_group(bu, g, target, cfile, wd):
    """partial-vacuity detector: which lines of the translated function bodies can no execution of this proof reach?
    (an infeasible path -- contradictory assumed clauses of replaced contracts, a dropped statement -- verifies anything;
    the end-of-harness canary only sees TOTAL vacuity)"""
    cb = ['cbmc', os.path.abspath(target), '--cover', 'location', '--json-ui', '--object-bits', g.attrs.get('object_bits', '10')]
    if g.mode in ('plain', 'loops', 'unwind'):
        cb += ['--nondet-static']
    if g.unwind:
        cb += ['--unwind', g.unwind]
    rc, out, err, dt = run(cb, timeout=g.timeout)
    try:
        data = json.loads(out)
    except Exception:
        return {'error': 'no coverage output (rc=%s)' % rc}
    goals = []
    for item in data:
        if 'goals' in item:
            goals = item['goals']
    lines = open(cfile).read().split('\n')
    per = {}
    for gl in goals:
        loc = gl.get('sourceLocation', {})
        fn = (loc.get('function') or '').replace('_wrapped_for_contract_checking', '')
        if fn not in bu.em.funcs or fn in g.replace or (fn in bu.unit.abstract):
            continue
        if not str(loc.get('file', '')).endswith('unit.c'):
            continue
        ln = int(loc.get('line', 0))
        per.setdefault((fn, ln), []).append(gl.get('status') == 'satisfied')
    out_ = {}
    entered = set(fn for (fn, ln), sts in per.items() if any(sts))     # functions some execution of this proof enters
    for (fn, ln), sts in sorted(per.items()):
        if fn not in entered:
            continue
        if not any(sts):
            text = lines[ln - 1].strip() if 0 < ln <= len(lines) else ''
            if text.startswith('__CPROVER_') or text in ('{', '}', ''):
                continue
            out_.setdefault(fn, []).append('%d: %s' % (ln, text[:140]))
    return out_
