#!/usr/bin/env python3
"""Regenerates /verif/MANIFEST.json from the table below (maintainer tool, not used by checks)."""
import json, os
HERE = os.path.dirname(os.path.dirname(os.path.abspath(__file__)))
TECH = 'contract-based deductive verification: CBMC 6.11 code contracts (goto-instrument --dfcc) on C extracted mechanically from the clang AST of /repo on every run'
CLAIMED = {
 'C17': dict(
   text='Proof (configurations base/dbg8/dbg16): debug_fill, debug_is_filled (loop contract: returns the FIRST differing byte), debug_fill_new, debug_fill_internal under contract; debug_fill_free checked through harness-encoded contracts: a corrupted fence byte is always reported with the node, its size and the first corrupted byte of that fence; intact fences are never reported whatever was written in bounds; free-list allocate/deallocate carry the new/freed patterns on every byte but the link word.',
   note='Trusted: memset as modelled by CBMC; registered handlers abstract (call counted, arguments recorded); regions <= 64 KiB; lowlevel_allocator/virtual_memory_allocator fence placement is covered only as far as listed in the evidence (functions_under_contract).',
   ref='8 (C17)'),
 'C19': dict(
   text='Proof: every function of the size/alignment arithmetic (is_valid_alignment, round_up_to_multiple_of_alignment, align_offset x2, is_aligned, alignment_for, ilog2_base, ilog2, ilog2_ceil, log2/identity access policies, free_list_array::get/max_node_size for all six list x policy instantiations) is under a contract whose postcondition is the mathematical definition, discharged over the full 64-bit domain (no loops, no bounds).',
   note='Trusted: clang AST, cxx2c extraction, CBMC + its model of __builtin_clzll. free_list_array::get relies on the bucket invariant node_size_[j] == max(size_from_index(j+min), min_element_size), which is the postcondition of the constructor loop (proved separately, parametric-bounded) and of the free-list constructors; bucket count for identity buckets assumed <= 4096.',
   ref='8 (C19)'),
}
NA_REASON = 'check not built yet (framework under construction; see DESIGN.md section 11 build order)'

def main():
    props = [json.loads(l) for l in open(os.path.join(HERE, 'properties.jsonl'))]
    checks, na = [], []
    for p in props:
        pid = p['id']
        c = CLAIMED.get(pid)
        if c is None:
            na.append(dict(property_id=pid, reason=NA.get(pid, NA_REASON)))
            continue
        checks.append(dict(property_id=pid, quick_cmd='bin/check %s --tier quick' % pid,
                           thorough_cmd='bin/check %s --tier thorough' % pid,
                           evidence_file='/verif/evidence/%s.json' % pid,
                           replay_cmd_template='cat {path}',
                           engine='cbmc-contracts',
                           level_claimed=dict(category='proof', text=c['text'], design_ref='DESIGN.md section ' + c['ref']),
                           level_note=c['note'], technique=c.get('technique', TECH)))
    m = dict(version=1, setup_cmd='true',
             hooks=dict(guard='FOONATHAN_MEMORY_VERIF',
                        enable='no hooks in /repo: contracts live in /verif/contracts/*.spec sidecars and are spliced into C extracted from the current working tree on every run',
                        baseline_off_cmd='ctest --test-dir /repo/_build -j8 --timeout 900', source_commits=[], add_only=True),
             engines=[dict(name='cbmc-contracts', path='/verif/bin/check', serves_properties=sorted(CLAIMED),
                           kind_free_text='clang JSON AST -> cxx2c (vf/cxx2c.py) -> C + contracts -> goto-cc / goto-instrument --dfcc / cbmc')],
             checks=checks, not_applicable=na,
             notes='exit 0 = all obligations discharged; exit 1 = VIOLATION (named obligation failed); exit 2 = undecided (timeout/tool failure/extraction break), never a violation.')
    json.dump(m, open(os.path.join(HERE, 'MANIFEST.json'), 'w'), indent=1)

NA = {}
if __name__ == '__main__':
    main()
