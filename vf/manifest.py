#!/usr/bin/env python3
"""Regenerates /verif/MANIFEST.json from the table below (maintainer tool, not used by checks)."""
import json, os
HERE = os.path.dirname(os.path.dirname(os.path.abspath(__file__)))
TECH = 'contract-based deductive verification: CBMC 6.11 code contracts (goto-instrument --dfcc) on C extracted mechanically from the clang AST of /repo on every run'
STEP = ' History-level wording ("after any history", "at every point") is obtained from these per-operation contracts by a paper induction recorded as an assumption in the evidence; CBMC has no inductive heap predicates.'
CLAIMED = {
 'C01': dict(
   text='Proof of the inductive step, per operation and for all pre-states: free_memory_list / ordered_free_memory_list allocate, allocate(n), deallocate, insert (nodes leave the list before they are returned; frame = list bookkeeping, the returned bytes and link words of free neighbours only), the array search loops (loop contracts over an oracle list: the run unlinked is exactly the run returned), fixed_memory_stack / memory_stack allocate, try_allocate, unwind (results inside [top,end), frame = the bumped range), iteration_allocator<N> (regions pairwise disjoint and inside the block, allocate touches only the current region), memory_block_stack push/top (user memory starts after the header), memory_pool<node_pool> allocate_block/allocate_node, memory_arena allocate_block.' + STEP,
   note='Not covered: small_free_memory_list chunk operations, memory_pool_collection, static_allocator, lowlevel/virtual memory allocators, temporary_allocator. Memory-writing insert loops are parametric-bounded (node size from an enumerated family, block <= 4 KiB quick / 64 KiB thorough) and kept out of the proof count. Oracle list for the search loops; upstream block source abstract (fresh disjoint blocks).',
   ref='8 (C01)'),
 'C02': dict(
   text='Proof: fixed_memory_stack::allocate, memory_stack::allocate/try_allocate, iteration_allocator::allocate/try_allocate return null-or-aligned pointers inside [old top + fence, end) with the top advanced by exactly size + fences, for every size_t size and every power-of-two alignment (also above max_alignment, also after block growth); list_search_array / xor_list_search_array (loop contracts) return an address-contiguous run of exactly ceil(bytes/node_size) nodes; free_memory_list::insert_impl places node k at mem + k*node_size; free_memory_list::alignment; aligned_allocator forwards max(min_alignment, alignment); memory_pool traits reject over-aligned / over-sized requests.',
   note='Not covered: small_free_memory_list node placement, memory_pool_collection, lowlevel_allocator. Search loops over an oracle list inside one flat arena < 2^40 bytes; run-length facts per node size from an enumerated family (parametric-bounded).',
   ref='8 (C02)'),
 'C03': dict(
   text='Proof with exceptions as a ghost flag: every throwing allocation function under contract (fixed/memory_stack, iteration_allocator, memory_arena::allocate_block cached and uncached, memory_pool<node_pool> allocate_block/allocate_node and its allocator_traits) ensures "no exception => non-null result", "exception => upstream exception propagated unchanged, or the library family (bad_allocation_size / out_of_memory) with the registered handler called exactly once first", over the full size_t domain; every try_ function ensures no exception, no upstream call, state unchanged on null. The upstream block source fails nondeterministically at every call.',
   note='Not covered: memory_pool_collection, static_allocator, lowlevel_allocator, joint_allocator, temporary_allocator growth. Handlers abstract (counted).',
   ref='8 (C03)'),
 'C04': dict(
   text='Proof of step + round-trip facts: free_memory_list and ordered_free_memory_list allocate()/deallocate(p) move capacity by exactly one and re-link the node; allocate(n) removes exactly ceil(n/node_size) nodes, deallocate(p,n) gives back exactly ceil(n/node_size) (found and fixed F-3); interval::size; empty() <=> no node; memory_pool<node_pool>::allocate_node asks the arena only when the free list is empty; deallocate_node / traits deallocate_node return the node to the list.' + STEP,
   note='Not covered: small_free_memory_list, memory_pool<array_pool/small_node_pool> instantiations, memory_pool_collection. Array paths per node size from an enumerated family (parametric-bounded). Window contracts: acyclicity and capacity_ == number of reachable nodes are paper-level.',
   ref='8 (C04)'),
 'C05': dict(
   text='Proof of step: memory_block_stack push/pop/steal_top/top under contract plus lemmas pop(push(b)) == b and steal-there-and-back is the identity; memory_arena<BlockAllocator,cached|uncached>::allocate_block (cache used before the block source; upstream failure leaves used/cached lists unchanged), deallocate_block (uncached: exactly the popped block, with the size it was obtained with, goes upstream), memory_stack::unwind keeps dropped blocks in the cache; iteration_allocator constructor / destructor / move assignment obtain and release exactly one block with matching size (found and fixed F-4); release order recorded in a ghost log. Whole-arena destructor scenarios (up to 3 blocks) are bounded stand-ins.' + STEP,
   note='Not covered: growing/fixed/static/virtual block allocators own bodies (abstract BlockAllocator assumed: fresh block or exception), temporary_block_allocator. Reverse order over unbounded histories is paper-level.',
   ref='8 (C05)'),
 'C06': dict(
   text='Proof: memory_stack::unwind(m) for every valid marker (same block or any deeper block; loop contract on the block-dropping loop) re-establishes top() == m: block index, top pointer, remaining capacity; dropped blocks go to the cache and none upstream; fixed_memory_stack::unwind; top(); capacity_left(); marker operator< is the lexicographic order on (index, top); arena swap / move keep the cached blocks.',
   note='"Same requests yield the same addresses" follows from allocate being a function of (top, end, request) (C02 contracts) plus the cache lemma in C05 (paper composition). Arena abstracted by contracts proved in the arena units. temporary_allocator nesting is C14.',
   ref='8 (C06)'),
 'C07': dict(
   text='Proof for N = 3 in the quick tier and N = 1..5 in the thorough tier (one extraction per N): block_start/block_end, the region lemma (block_start(0) == memory, block_start(N) == memory + size, monotone: regions disjoint and inside the block, for every block size including sizes not divisible by N), constructor places stack i at block_start(i) (found and fixed F-5), allocate/try_allocate touch only the current region and keep its top inside it, next_iteration advances cur_ modulo N and resets exactly the new current region to full capacity.',
   note='Block size <= SIZE_MAX/N assumed (i*size must not wrap). "Valid until N calls of next_iteration" follows from the step contracts by paper induction over the iteration count. Abstract block source.',
   ref='8 (C07)'),
 'C08': dict(
   text='Proof: memory_block::contains is exactly mem <= p < mem + size; memory_pool<node_pool>::try_deallocate_node returns arena.owns(p) and changes nothing when it is false; fallback_allocator<D,F> (all eight members incl. the composable ones): the default allocator is asked first with the same kind/count/size/alignment, and exactly when it refuses is the fallback asked, once, with the same shape (found and fixed F-6: misnamed composable array member) -- with leaves that answer true exactly for their own memory the release reaches the allocator that served the allocation, at any nesting depth by modularity. memory_block_stack::owns over a list is a bounded stand-in (<= 3 blocks).',
   note='"Owns" is what the code tests (inside the arena\'s used blocks), not "handed out and not yet released". memory_pool_collection / memory_stack / iteration_allocator composable traits not covered.',
   ref='8 (C08)'),
 'C09': dict(
   text='Proof over abstract leaf allocators with a ghost call log: every member (allocate/deallocate node/array, try_ variants) of aligned_allocator, allocator_storage<direct_storage,mutex> (thread_safe_allocator), allocator_storage<reference_storage,no_mutex>, tracked_allocator (tracker called exactly once, on success only; found and fixed F-13), fallback_allocator, binary_segregator<threshold_segregatable> (same predicate of the same arguments on both sides), std_allocator::allocate/deallocate (n == 1 <-> node on both sides), allocator_deallocator (node and array form): exactly one leaf request of the same kind, same count/size, alignment >= requested, result passed through; release to the same leaf object with the same parameters. Each wrapper is proved against the RawAllocator interface contract of its inner allocator, so arbitrary nesting follows by modularity.',
   note='Not covered (virtual dispatch / libstdc++ internals are outside the extractor): type-erased reference_storage<any_allocator>, memory_resource_adapter, memory_resource_allocator, allocate_unique/allocate_shared plumbing, allocator_deleter destructor calls, polymorphic deleters.',
   ref='8 (C09)'),
 'C10': dict(
   text='Kernel only (the sentence a contract can be attached to): std_allocator<T,A> over a stateful A compares equal exactly when both reference the same allocator object; allocate/deallocate go to that referenced object with the node/array decision mirrored; rebinding (converting constructor) and select_on_container_copy_construction keep the reference. Hence equal allocators release into the same allocator object.',
   note='NOT covered and not claimable by this family here: the container sentence (libstdc++ container/shared_ptr/unique_ptr code honouring the propagation typedefs over all operation sequences) and the X_node_size<T> sentence (produced at configure time by cmake/get_node_size.cpp). Stateless and shared-reference storage forms are not instantiated.',
   ref='8 (C10)'),
 'C11': dict(
   text='Proof: detail::joint_stack (ctor covers exactly [mem, mem+cap); allocate returns null or an aligned piece at or after the old top that ends at the new top <= end; bump refuses what does not fit; unwind; capacity figures), joint_type constructor (joint memory = the capacity bytes directly after the object), joint_allocator::allocate_node (never null: out_of_fixed_memory after its handler, stack untouched) / deallocate_node (only the last piece is unwound), joint_ptr::create (ONE upstream allocate_node(sizeof(T)+additional, alignof(T)); object at the block start), reset (destructor once, then one deallocate_node with exactly that size and alignment), move constructor; joint_array storage allocation.',
   note='Upstream allocator, the joint object constructor hook and element types abstract; block modelled as an object of constant size >= the request (extents pinned by postconditions); joint memory <= 4 KiB in create, <= 2^20 elsewhere. clone_joint, joint_array range/copy constructors, swap and move assignment not covered; size*sizeof(T) overflow in joint_array (F-19) excluded by size <= 2^16.',
   ref='8 (C11)'),
 'C12': dict(
   text='Proof of step: move constructor, move assignment and swap of free_memory_list, ordered_free_memory_list (all first/last-node shapes: sentinel link words re-pointed to the new proxies), fixed_memory_stack, memory_block_stack, memory_arena (cached/uncached), iteration_allocator (assignment releases the target\'s block exactly once, F-4 fixed; destructor of a moved-from object releases nothing): the new owner holds exactly the old owner\'s fields, the moved-from object is the empty representation, the frame is the two objects plus link words inside free nodes.' + STEP,
   note='Not covered: small_free_memory_list, free_list_array, memory_pool, memory_pool_collection, memory_stack (implicit members), block allocators, virtual_block_allocator (F-9 read-only finding, not under contract).',
   ref='8 (C12)'),
 'C20': dict(
   text='Proof with exceptions as a ghost flag and a ghost liveness bit for ONE arbitrary element: detail::construct (both forms; loop contracts on the construction and the rollback loop): success = every element of the range constructed, none destroyed; a constructor threw = every element built so far destroyed exactly once (the abstract destructor requires a live object, so destroying an unconstructed slot or destroying twice fails), exception unchanged. joint_array<T>::builder create/~builder and the joint_array(size) constructor: same, plus the array storage is unwound from the joint stack. joint_ptr::create: constructor throws => the block is given back once with the allocation parameters, exception unchanged.',
   note='NOT covered: allocate_unique / allocate_array_unique / allocate_shared as a whole (their guards are std::unique_ptr / std::allocate_shared from libstdc++, outside the extractor) -- only the construct helper they call; clone_joint; the other joint_array constructor forms. Arrays <= 2^20 (construct) / 2^16 (joint_array) elements.',
   ref='8 (C20)'),
 'C13': dict(
   text='Proof of the lock discipline (sequential): every forwarding member of allocator_storage<direct_storage<A>, Mutex> (throwing, composable; node/array) reaches the wrapped allocator only with the ghost mutex_held == 1 (precondition of every leaf member), takes the mutex exactly once and has released it on every exit including when the leaf or lock() throws; the lock() proxy is handed out with the mutex held, releases it exactly once on destruction, and a moved-from proxy releases nothing.',
   note='That a correct mutex then serialises all schedules, data-race freedom of stateless allocators, and the size-query members (max_node_size etc.) are not mechanised; stateless leaf (no_mutex selection) not instantiated.',
   ref='8 (C13)'),
 'C14': dict(
   text='Sequential kernel only. Proof: temporary_allocator constructor (becomes the active allocator, records the previous one and the stack top marker at that moment) and destructor (the active allocator restores the previous one and unwinds the stack to exactly its construction marker -- each object restores exactly its own entry state, so any nesting unwinds correctly), is_active; temporary_stack_list::clear (memory released, marked free), create (the stack a thread gets is marked in use: claimed by find_unused and re-initialised, or brand new); get_temporary_stack / temporary_stack_initializer keep the one-thread invariant "temp_stack == 0 or it names a stack marked in use" (two proof cases). find_unused (CAS over the list links) is a bounded stand-in for lists of <= 3 stacks: null exactly when all are in use, otherwise a stack whose flag went false -> true in this call, all other flags unchanged. Known finding F-11 (the initializer destructor breaks the invariant) is listed in known_findings.txt with a native replay.',
   note='thread_local and std::atomic read as plain variables (one thread\'s view). NOT covered and not expressible by contracts here: the schedule half of the property -- no two live threads share a stack under every interleaving, reuse of stacks across thread exit, exit-time freeing (nifty counter). memory_stack abstract (unit mstack).',
   ref='8 (C14)'),
 'C15': dict(
   text='Proof: object_leak_checker (constructor zero; on_allocate/on_deallocate move the net count by exactly the size; destructor reports exactly once with the exact net amount iff it is non-zero; move constructor / move assignment transfer the count and zero the source), the process-wide checker of the low-level allocators (global_leak_checker_impl counter: the LAST counter object to die reports the net once iff non-zero; lowlevel_allocator::allocate_node / deallocate_node book the same actual size, only on success), leak handler forwarding (debug_handle_memory_leak, lowlevel_allocator_leak_handler), memory_pool traits: allocate_node/deallocate_node and allocate_array/deallocate_array book the same expression of the same arguments on both sides, only after a successful allocation.',
   note='std::atomic counters read sequentially; memory_pool_collection and memory_stack traits not covered; history-level "net = sum over the history" is the paper induction over these step contracts.',
   ref='8 (C15)'),
 'C16': dict(
   text='Proof, with the invalid-pointer handler modelled as non-returning (the default handler aborts) and carrying the precondition "the release is invalid AND the allocator state is still the entry state": small_free_memory_list::deallocate (pointer in no chunk / not on a node boundary / already free under double-free checking: never reaches the end of the function, reported before capacity_ or the chunk\'s free chain change; a valid release is never reported and returns exactly that node), chunk::from and from_chunk (a chunk owns exactly [list_memory, list_memory + no_nodes*node_size); one-past-the-end is foreign), memory_stack::unwind (marker with a block index above the top block, or above the top in the same block: reported before the stack or arena change; valid markers never reported), static_block_allocator::deallocate_block (only the most recent block is taken back; anything else is reported before cur_ moves), debug_handle_invalid_ptr forwards to the registered handler exactly once.',
   note='find_chunk_impl (list traversal; its completeness and termination) and chunk::contains are abstract in the deallocate proof; node sizes from an enumerated family (parametric-bounded). Not covered: ordered_free_memory_list double-free detection (find_pos / find_pos_interval are abstract in the ordered-list proofs), virtual_block_allocator and fixed_block_allocator deallocate_block. A user handler that returns is outside the model.',
   ref='8 (C16)'),
 'C17': dict(
   text='Proof (configurations base/dbg8/dbg16): debug_fill, debug_is_filled (loop contract: returns the FIRST differing byte), debug_fill_new, debug_fill_internal under contract; debug_fill_free checked through harness-encoded contracts: a corrupted fence byte is always reported with the node, its size and the first corrupted byte of that fence; intact fences are never reported whatever was written in bounds; free-list allocate/deallocate carry the new/freed patterns on every byte but the link word.',
   note='Trusted: memset as modelled by CBMC; registered handlers abstract (call counted, arguments recorded); regions <= 64 KiB; lowlevel_allocator/virtual_memory_allocator fence placement is covered only as far as listed in the evidence (functions_under_contract).',
   ref='8 (C17)'),
 'C18': dict(
   text='Proof over the ranges named in the property: min_block_size lemmas for free_memory_list, ordered_free_memory_list and small_free_memory_list (node size 1..512, count 1..2000: inserting a block of that size yields at least n nodes; found and fixed F-10), capacity counters move by exactly +-1 / +-ceil(n/node_size) / +floor(size/node_size) in every list operation, memory_block_stack::push/top (usable size == block size - implementation_offset), memory_arena::next_block_size, memory_pool<node_pool> allocate_block / capacity_left / allocate_node, memory_stack::capacity_left, and rejection of over-sized requests at the traits entry points.',
   note='min_block_size lemmas are bounded to the property\'s own range (larger ranges did not finish) and listed as bounded; memory_pool_collection capacity functions not covered.',
   ref='8 (C18)'),
 'C19': dict(
   text='Proof: every function of the size/alignment arithmetic (is_valid_alignment, round_up_to_multiple_of_alignment, align_offset x2, is_aligned, alignment_for, ilog2_base, ilog2, ilog2_ceil, log2/identity access policies, free_list_array::get/max_node_size for all six list x policy instantiations) is under a contract whose postcondition is the mathematical definition, discharged over the full 64-bit domain (no loops, no bounds).',
   note='Trusted: clang AST, cxx2c extraction, CBMC + its model of __builtin_clzll. free_list_array::get relies on the bucket invariant node_size_[j] == max(size_from_index(j+min), min_element_size), which is the postcondition of the constructor loop (proved separately, parametric-bounded) and of the free-list constructors; bucket count for identity buckets assumed <= 4096.',
   ref='8 (C19)'),
}
NA_REASON = 'check not built yet (framework under construction; see DESIGN.md section 11 build order)'

def main():
    props = [json.loads(l) for l in open(os.path.join(HERE, 'properties.jsonl'))]
    checks, na = [], []
    for p in props:
        pid = p['id']
        c = CLAIMED.get(pid)
        if c is None:
            na.append(dict(property_id=pid, reason=NA.get(pid, NA_REASON)))
            continue
        checks.append(dict(property_id=pid, quick_cmd='bin/check %s --tier quick' % pid,
                           thorough_cmd='bin/check %s --tier thorough' % pid,
                           evidence_file='/verif/evidence/%s.json' % pid,
                           replay_cmd_template='cat {path}',
                           engine='cbmc-contracts',
                           level_claimed=dict(category='proof', text=c['text'], design_ref='DESIGN.md section ' + c['ref']),
                           level_note=c['note'], technique=c.get('technique', TECH)))
    m = dict(version=1, setup_cmd='true',
             hooks=dict(guard='FOONATHAN_MEMORY_VERIF',
                        enable='no hooks in /repo: contracts live in /verif/contracts/*.spec sidecars and are spliced into C extracted from the current working tree on every run',
                        baseline_off_cmd='ctest --test-dir /repo/_build -j8 --timeout 900', source_commits=[], add_only=True),
             engines=[dict(name='cbmc-contracts', path='/verif/bin/check', serves_properties=sorted(CLAIMED),
                           kind_free_text='clang JSON AST -> cxx2c (vf/cxx2c.py) -> C + contracts -> goto-cc / goto-instrument --dfcc / cbmc')],
             checks=checks, not_applicable=na,
             notes='exit 0 = all obligations discharged; exit 1 = VIOLATION (named obligation failed); exit 2 = undecided (timeout/tool failure/extraction break), never a violation.')
    json.dump(m, open(os.path.join(HERE, 'MANIFEST.json'), 'w'), indent=1)

NA = {
}
if __name__ == '__main__':
    main()
