"""bin/check <ID> [--tier quick|thorough]: decide one property by discharging its contract obligations."""
import os, sys, re, json, time, shutil, tempfile, argparse, subprocess
from concurrent.futures import ThreadPoolExecutor

HERE = os.path.dirname(os.path.abspath(__file__))
sys.path.insert(0, HERE)
import pipeline as pl            # noqa
import spec as specmod           # noqa
from pipeline import Undecided, VERIF, REPO   # noqa

ALL_CFGS = ['base', 'rel', 'dbg8', 'dbg16']


def read_findings():
    path = os.path.join(VERIF, 'known_findings.txt')
    out = []
    if not os.path.exists(path):
        return out
    for line in open(path):
        line = line.strip()
        if not line.startswith('finding:'):
            continue
        head, _, what = line[len('finding:'):].partition('::')
        d = {'what': what.strip()}
        m = re.search(r'where=(.*)$', head)
        if m:
            d['where'] = m.group(1).strip()
            head = head[:m.start()]
        for w in head.split():
            k, _, v = w.partition('=')
            d[k] = v
        out.append(d)
    return out


def cfgs_for(g, unit, tier):
    if g.configs:
        base = g.configs
    elif unit.configs:
        base = unit.configs
    else:
        base = ['base']
    # the thorough tier adds configurations only where a unit or group asks for them (thorough_configs=...): contracts written for the
    # configurations a unit declares are not automatically valid under ASSERT=1 / fence configurations (extra assertions in the code)
    if tier == 'thorough' and unit.thorough_configs and not g.configs:
        base = list(dict.fromkeys(base + unit.thorough_configs))
    if tier == 'thorough' and g.attrs.get('thorough_configs'):
        base = g.attrs['thorough_configs'].split(',')
    return base


def family_values(g, tier):
    if not g.family:
        return [None]
    var, vals = g.family
    if tier == 'thorough' and g.attrs.get('thorough_family'):
        spec = g.attrs['thorough_family']
        if '..' in spec:
            lo, hi = spec.split('..')
            return [(var, str(v)) for v in range(int(lo), int(hi) + 1)]
        return [(var, v) for v in spec.split(',')]
    return [(var, v) for v in vals]


def trace_inputs(prop, harness_fn):
    """harness-level variable values from a CBMC json trace"""
    vals = {}
    for st in prop.get('trace', []):
        if st.get('stepType') != 'assignment':
            continue
        lhs = st.get('lhs')
        v = st.get('value', {})
        if lhs is None or st.get('hidden'):
            continue
        fn = st.get('sourceLocation', {}).get('function')
        if fn != harness_fn and not lhs.startswith('g_'):
            continue
        if 'binary' in v and len(v['binary']) <= 64:
            try:
                vals[lhs] = int(v['binary'], 2)
            except ValueError:
                pass
        elif 'data' in v:
            vals[lhs] = v['data']
    return vals


def native_replay(g, bu, inputs, outdir, tag):
    """compile and run the group's native replay driver against the real sources. returns (reproduced, log)"""
    if not g.replay:
        return None, 'no replay driver for this group'
    wd = tempfile.mkdtemp(prefix='replay_')
    try:
        cfgdir = pl.gen_config(wd, bu.cfg)
        src = os.path.join(wd, 'replay.cpp')
        with open(src, 'w') as f:
            f.write('#include "%s"\n' % os.path.join(VERIF, 'replay', 'replay.hpp'))
            f.write(g.replay)
        exe = os.path.join(wd, 'replay')
        cmd = ['g++', '-std=gnu++17', '-O0', '-g', '-fno-access-control', '-DFOONATHAN_MEMORY=1', '-DFOONATHAN_MEMORY_VERSION_MAJOR=0',
               '-DFOONATHAN_MEMORY_VERSION_MINOR=7', '-DFOONATHAN_MEMORY_VERSION_PATCH=4',
               '-I' + cfgdir, '-I' + os.path.join(REPO, 'include'), '-I' + os.path.join(REPO, 'include/foonathan/memory'),
               '-I' + os.path.join(REPO, 'src'), '-I' + os.path.join(VERIF, 'drivers'), '-I' + os.path.join(VERIF, 'replay'),
               src, '-o', exe, '-pthread']
        links = re.findall(r'^//LINK\s+(\S+)', g.replay, re.M)
        if re.search(r'^//LINKALL\b', g.replay, re.M):
            import glob as _glob
            links += [os.path.relpath(f_, REPO) for f_ in sorted(_glob.glob(os.path.join(REPO, 'src', '*.cpp')) + _glob.glob(os.path.join(REPO, 'src', 'detail', '*.cpp')))
                      if os.path.basename(f_) not in ('assert.cpp',)]
        if pl.CONFIGS[bu.cfg][0] and 'src/detail/assert.cpp' not in links and '<detail/assert.cpp>' not in g.replay:
            links.append('src/detail/assert.cpp')
        cmd += [os.path.join(REPO, l) for l in links]
        rc, out, err, dt = pl.run(cmd, timeout=300, limit=False)
        if rc != 0:
            return None, 'replay driver did not compile: ' + err[-1500:]
        args = ['%s=%s' % (k, v) for k, v in inputs.items() if isinstance(v, int)]
        rc, out, err, dt = pl.run([exe] + args, timeout=60, limit=False)
        log = 'cmd: replay %s\nexit=%s\n%s%s' % (' '.join(args), rc, out[-3000:], err[-2000:])
        if rc == 0:
            return False, log
        return True, log
    finally:
        shutil.rmtree(wd, ignore_errors=True)


def main():
    ap = argparse.ArgumentParser()
    ap.add_argument('prop')
    ap.add_argument('--tier', default=os.environ.get('VERIF_TIER', 'quick'))
    ap.add_argument('--only', default=None, help='run only groups whose name matches this regex (debugging)')
    ap.add_argument('--keep', action='store_true')
    ap.add_argument('--jobs', type=int, default=int(os.environ.get('VERIF_JOBS', '16')))
    ap.add_argument('--no-evidence', action='store_true')
    a = ap.parse_args()
    tier = 'thorough' if a.tier == 'thorough' else 'quick'
    seed = int(os.environ.get('VERIF_SEED', '0') or 0)
    t_start = time.time()
    prop = a.prop
    workdir = tempfile.mkdtemp(prefix='verif_%s_' % prop)
    status = 2
    try:
        status = check(prop, tier, seed, a, workdir, t_start)
    except Undecided as u:
        print('UNDECIDED property=%s: %s' % (prop, u))
        status = 2
    finally:
        if not a.keep:
            shutil.rmtree(workdir, ignore_errors=True)
        else:
            print('work dir kept: ' + workdir)
    sys.exit(status)


def check(prop, tier, seed, a, workdir, t_start):
    units = specmod.load_all(os.path.join(VERIF, 'contracts'))
    findings = [f for f in read_findings() if f.get('property') == prop]
    jobs = []          # (unit, cfg, group, famval, finding-mode)
    for u in units:
        for g in u.groups.values():
            if prop not in g.props:
                continue
            if g.tier == 'thorough' and tier != 'thorough':
                continue
            if a.only and not re.search(a.only, g.name):
                continue
            for cfg in cfgs_for(g, u, tier):
                for fv in family_values(g, tier):
                    jobs.append((u, cfg, g, fv))
    if not jobs:
        raise Undecided('no obligation groups registered for %s' % prop)
    # ---- build units
    needed = sorted(set((u.name, cfg) for u, cfg, g, fv in jobs))
    byname = {u.name: u for u in units}
    built = {}

    def build(key):
        try:
            return key, pl.build_unit(byname[key[0]], key[1], workdir)
        except Undecided as e:
            return key, e
    with ThreadPoolExecutor(max_workers=min(4, a.jobs)) as ex:
        for key, bu in ex.map(build, needed):
            built[key] = bu
    undecided = []
    for key, bu in built.items():
        if isinstance(bu, Exception):
            undecided.append('%s[%s]: %s' % (key[0], key[1], bu))
        elif bu.missing:
            undecided.append('extraction break: contracts name functions that no longer exist in unit %s[%s]: %s' %
                             (key[0], key[1], ', '.join(bu.missing)))
    if undecided:
        for u_ in undecided:
            print('UNDECIDED property=%s: %s' % (prop, u_))
        return 2

    # ---- run groups
    def work(job):
        u, cfg, g, fv = job
        bu = built[(u.name, cfg)]
        defs = []
        label = None
        if fv:
            if fv[0] == 'SHAPES':      # two-digit case code: shape of list a, shape of list b
                defs += ['SHAPE_A=' + fv[1][0], 'SHAPE_B=' + fv[1][1]]
            else:
                defs.append('%s=%s' % fv)
            label = '%s=%s' % fv
        fs = [f for f in findings if f.get('group') == g.name and (f.get('cfg') in (None, cfg))]
        results = []
        if fs:
            where = ' || '.join('(%s)' % f['where'] for f in fs)
            if not all(f['where'].strip() in ('1', 'true') for f in fs):
                # inputs outside the listed findings must still be discharged (a different violation is still reported)
                r = pl.run_group(bu, g, extra_defs=defs + ['VERIF_WHERE=' + where], label=label)
                r['finding_mode'] = 'exclude'
                results.append(r)
            # (where=1: the finding covers every input of this proof case; the other cases of the function are separate groups)
            for f in fs:
                r2 = pl.run_group(bu, g, extra_defs=defs + ['VERIF_WHERE=(%s)' % f['where'], 'VERIF_FINDING_ONLY=1'], label=label)
                r2['finding_mode'] = 'only'
                r2['finding'] = f
                results.append(r2)
        else:
            results.append(pl.run_group(bu, g, extra_defs=defs, label=label))
        return job, results
    all_results = []
    with ThreadPoolExecutor(max_workers=a.jobs) as ex:
        for job, results in ex.map(work, jobs):
            for r in results:
                all_results.append((job, r))

    # ---- classify
    n_obl = n_ok = 0
    bounded = []
    fn_rows = []
    violations = []
    known = []
    canaries = [0, 0]
    samples = []
    undec = []
    cmds = None
    for (u, cfg, g, fv), r in all_results:
        bu = built[(u.name, cfg)]
        if r['status'] != 'done':
            undec.append('%s[%s%s]: %s' % (g.name, cfg, (' ' + r['label']) if r.get('label') else '', r.get('reason')))
            continue
        cmds = cmds or r['cmds']
        fails = []
        unknown = []
        ok = 0
        canary_seen = canary_failed = False
        extraction_break = False
        for p in r['props']:
            desc = p.get('description', '')
            if 'VERIF-CANARY' in desc:
                canary_seen = True
                canary_failed = p['status'] == 'FAILURE'
                continue
            if p['status'] == 'SUCCESS':
                ok += 1
            elif p['status'] == 'FAILURE' and 'undefined function should be unreachable' in desc:
                # the code under contract calls a function that has neither a body nor a contract in this unit (e.g. after a change
                # that introduces a new callee): the unit no longer covers the code -- an extraction break, not a verdict
                unknown.append('%s[%s]: call of %s, which has neither a body nor a contract in this unit' % (g.name, cfg, p.get('property', '?').split('.')[0]))
                extraction_break = True
            elif p['status'] == 'FAILURE':
                fails.append(p)
            else:
                unknown.append('%s[%s]: obligation %s status %s' % (g.name, cfg, p.get('property'), p['status']))
        if unknown and (not fails or extraction_break):
            undec += unknown[:5]
        if extraction_break:
            continue
        if r.get('finding_mode') == 'only':
            f = r['finding']
            if fails:
                known.append((f, g, cfg, fails))
            else:
                sys.stderr.write('stale known finding (no longer fails): %s\n' % f['what'])
            continue
        if g.canary:
            canaries[0] += 1
            if canary_seen and canary_failed:
                canaries[1] += 1
            else:
                undec.append('%s[%s]: vacuity canary did not fail (contradictory precondition or unreachable call)' % (g.name, cfg))
        total = ok + len(fails)
        is_bounded = bool(g.bounded or (g.family and g.attrs.get('cases') != 'complete') or (g.unwind and g.attrs.get('complete_unwind') != 'yes'))
        if is_bounded:
            bounded.append(dict(group=g.name, cfg=cfg, bound=(g.bounded or '') + ((' ' + r['label']) if r.get('label') else '') +
                                ((' unwind=%s with unwinding assertions' % g.unwind) if g.unwind else ''),
                                obligations=total, discharged=ok))
        else:
            n_obl += total
            n_ok += ok
        fn = g.enforce or g.name
        meta = bu.meta.get(g.enforce, {}) if g.enforce else {}
        fn_rows.append(dict(group=g.name, function=meta.get('qualname', fn), cname=fn,
                            source='%s:%s' % (meta.get('file'), meta.get('line')) if meta else None, config=cfg,
                            mode=g.mode + ('+loop-contracts' if g.attrs.get('loops') == 'yes' else ''),
                            label=r.get('label'), obligations=total, discharged=ok, ast_nodes=meta.get('ast_nodes'),
                            backend='cbmc 6.11 ' + (r.get('solver_used') or g.solver), seconds=round(r.get('seconds', 0), 2),
                            solver_seconds=round(r.get('cbmc_seconds', 0), 2), replaced=g.replace,
                            bounded=is_bounded))
        if len(samples) < 6 and r['props']:
            for p in r['props'][:400]:
                if 'postcondition' in p.get('property', '') or 'assertion' in p.get('property', ''):
                    if 'VERIF-CANARY' in p.get('description', ''):
                        continue
                    samples.append(dict(group=g.name, config=cfg, obligation=p.get('property'), text=p.get('description'),
                                        status=p['status']))
                    break
        if r.get('unreached'):
            for fn_, ls in (r['unreached'].items() if isinstance(r['unreached'], dict) else []):
                sys.stderr.write('UNREACHED in proof %s[%s%s] %s:\n' % (g.name, cfg, (' ' + r['label']) if r.get('label') else '', fn_))
                for l_ in (ls if isinstance(ls, list) else [ls])[:12]:
                    sys.stderr.write('    ' + str(l_) + '\n')
        if fails:
            def rank(p):
                n = p.get('property', '')
                for i, kw in enumerate(('postcondition', 'assertion', 'assigns', 'loop_invariant', 'precondition', 'loop_decreases')):
                    if kw in n:
                        return i
                return 9
            fails.sort(key=rank)
            violations.append((u, cfg, g, fv, r, fails[0], fails))

    # ---- violations -> replay
    exit_code = 0
    out_dir = os.path.join(VERIF, 'replay_out')
    vio_lines = []
    for (u, cfg, g, fv, r, p, allfails) in violations:
        os.makedirs(out_dir, exist_ok=True)
        bu = built[(u.name, cfg)]
        inputs = trace_inputs(p, 'h_' + g.name)
        if fv:
            try:
                inputs[fv[0]] = int(fv[1])
            except ValueError:
                pass
        reproduced, log = native_replay(g, bu, inputs, out_dir, g.name)
        oname = re.sub(r'[^A-Za-z0-9_.-]', '_', '%s.%s.%s%s.%s' % (prop, g.name, cfg, ('.' + r['label']) if r.get('label') else '', p.get('property')))
        path = os.path.join(out_dir, oname + '.json')
        loc = p.get('sourceLocation', {})
        meta = bu.meta.get(g.enforce or '', {})
        rep = dict(property=prop, group=g.name, config=cfg, label=r.get('label'), failed_obligation=p.get('property'),
                   obligation_text=p.get('description'), c_location=loc,
                   all_failed_obligations=[dict(obligation=x.get('property'), text=x.get('description')) for x in allfails],
                   repo_function=meta.get('qualname'), repo_location='%s:%s' % (meta.get('file'), meta.get('line')) if meta else None,
                   counterexample_inputs=inputs, native_replay=dict(reproduced=reproduced, log=log),
                   verifier='cbmc 6.11.0', verifier_commands=r['cmds'],
                   verifier_trace_tail=[dict(lhs=s.get('lhs'), value=s.get('value', {}).get('data'),
                                             fn=s.get('sourceLocation', {}).get('function'), line=s.get('sourceLocation', {}).get('line'))
                                        for s in p.get('trace', []) if s.get('stepType') == 'assignment' and not s.get('hidden')][-60:])
        json.dump(rep, open(path, 'w'), indent=1, default=str)
        suffix = '' if reproduced else ' no-failing-input-found'
        vio_lines.append('VIOLATION property=%s replay=%s%s' % (prop, path, suffix))
        for x in allfails[:6]:
            sys.stderr.write('  failed obligation %s [%s %s]: %s\n' % (x.get('property'), g.name, cfg, x.get('description')))
        exit_code = 1
    for (f, g, cfg, fails) in known:
        print('KNOWN-FINDING: property=%s %s' % (prop, f['what']))
    if undec and exit_code == 0:
        exit_code = 2
    for u_ in undec:
        print('UNDECIDED property=%s: %s' % (prop, u_))
    for v in sorted(set(vio_lines)):
        print(v)

    # ---- evidence
    wall = time.time() - t_start
    assumptions = []
    trusted = ['clang 14 front end (JSON AST = meaning of the C++)', 'cxx2c extraction (vf/cxx2c.py; DESIGN.md section 4 lists what it drops)',
               'CBMC 6.11.0 + goto-instrument contract instrumentation (dfcc), SAT back end (MiniSat2)',
               "CBMC's built-in models of memcpy/memset/malloc/__builtin_clzll"]
    for key, bu in built.items():
        for cn in sorted(bu.unit.abstract):
            trusted.append('assumed contract (abstract/extern, body not verified here): %s [unit %s]' % (cn, bu.unit.name))
        for cn, d in sorted(bu.em.protos.items()):
            if cn not in bu.em.funcs and cn not in bu.unit.abstract:
                trusted.append('external function without body in unit %s: %s (%s)' %
                               (bu.unit.name, cn, 'assumed contract' if bu.unit.contract_for(cn, bu.cfg) else 'unconstrained'))
    for u in units:
        m = re.findall(r'^##\s*ASSUME:\s*(.*)$', open(u.path).read(), re.M)
        if any(prop in g.props for g in u.groups.values()):
            assumptions += ['[%s] %s' % (u.name, x) for x in m]
    trusted = list(dict.fromkeys(trusted))
    ev = dict(property_id=prop, tier=tier, seed=seed, level='proof',
              coverage=dict(obligations=n_obl, discharged=n_ok,
                            checker_cmd=' ; '.join(cmds or ['(none)']),
                            trusted_base=trusted, bounded=bounded, functions_under_contract=fn_rows,
                            samples=samples, vacuity=dict(canaries_expected=canaries[0], canaries_failed_as_required=canaries[1]),
                            units=[dict(unit=k[0], config=k[1], translate_seconds=round(b.seconds, 1),
                                        functions_translated=len(b.em.funcs)) for k, b in built.items() if not isinstance(b, Exception)],
                            undecided=undec,
                            known_findings=[f['what'] for f, _, _, _ in known]),
              assumptions=assumptions + ['machine integers are 64-bit two\'s complement bit-vectors (not mathematical integers)',
                                         'sequential semantics: std::atomic / thread_local read as plain variables'],
              wall_s=round(wall, 2), violations=len(violations))
    if not a.no_evidence and not a.only:
        os.makedirs(os.path.join(VERIF, 'evidence'), exist_ok=True)
        json.dump(ev, open(os.path.join(VERIF, 'evidence', prop + '.json'), 'w'), indent=1)
    slow = sorted([(r_['seconds'], r_['group'], r_['config']) for r_ in fn_rows if r_['seconds'] > 10], reverse=True)[:8]
    if slow:
        sys.stderr.write('slowest groups: ' + ', '.join('%s[%s] %.0fs' % (g_, c_, s_) for s_, g_, c_ in slow) + '\n')
    print('%s tier=%s: %d/%d unbounded obligations discharged, %d bounded groups, %d groups, %d violations, %d undecided, %.1fs' %
          (prop, tier, n_ok, n_obl, len(bounded), len(fn_rows), len(violations), len(undec), wall))
    return exit_code


if __name__ == '__main__':
    main()
