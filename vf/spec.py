"""Sidecar contract files: contracts/<unit>.spec

  @unit <name> source=<path relative to /repo> | driver=<path relative to /verif>
  @roots                      one selector per line (C++ qualified-name suffix, optional @signature-substring)
  @abstract <cname> ...       bodies NOT translated (declared with their contract only)
  @prelude                    C text placed after the struct definitions (ghosts, spec macros)
  @contract <cname> [when=<cfg-expr>]   __CPROVER_requires/ensures/assigns clauses for a function
  @loop <cname> <n>           loop contract of the n-th loop (1-based, source order) of a function
  @group <name> props=C19[,C02] [mode=dfcc|loops|unwind|plain] [enforce=<cname>] [replace=a,b]
         [configs=base,rel] [tier=quick|thorough] [canary=no] [unwind=N] [defs=A=1;B=2] [stop=allowed]
         [solver=sat|kissat|cvc5|z3] [timeout=S] [bounded=<text>] [roots=<extra selectors ;-separated>]
         [family=NS:8,16,24]       (one run per value, -DNS=<v>; recorded as parametric-bounded)
      body: C text; must define `void HARNESS(void)`; empty body + enforce => generated harness
  @replay <group>             C++ text of a native replay driver (see replay/replay.hpp)
Lines starting with '##' are comments.
"""
import re, os


class SpecError(Exception):
    pass


class Group:
    def __init__(self, name, attrs, body, unit):
        self.name = name
        self.attrs = attrs
        self.body = body
        self.unit = unit
        self.props = [p for p in attrs.get('props', '').split(',') if p]
        self.mode = attrs.get('mode', 'dfcc')
        self.enforce = attrs.get('enforce')
        self.replace = [x for x in attrs.get('replace', '').split(',') if x]
        self.configs = [x for x in attrs.get('configs', '').split(',') if x]
        self.tier = attrs.get('tier', 'quick')
        self.canary = attrs.get('canary', 'yes') != 'no'
        self.unwind = attrs.get('unwind')
        self.defs = [x for x in attrs.get('defs', '').split(';') if x]
        self.stop_allowed = attrs.get('stop') == 'allowed'
        self.solver = attrs.get('solver', os.environ.get('VERIF_SOLVER', 'sat'))
        self.timeout = int(attrs.get('timeout', '900'))
        self.bounded = attrs.get('bounded')
        self.family = None
        if 'family' in attrs:
            var, _, vals = attrs['family'].partition(':')
            self.family = (var, vals.split(','))
        self.replay = None


class Unit:
    def __init__(self, path, text=None):
        self.path = path
        self.name = None
        self.source = None
        self.driver = None
        self.roots = []
        self.abstract = []
        self.prelude = ''
        self.contracts = {}     # cname -> [(when, text)]
        self.loops = {}         # (cname, n) -> text
        self.groups = {}
        self.configs = None
        self.thorough_configs = []
        self.cxxdefs = []
        self.parse(text if text is not None else open(path).read())

    def parse(self, text):
        sec = None
        buf = []
        sections = []
        for line in text.split('\n'):
            if line.startswith('##'):
                continue
            if line.startswith('@') and not line.startswith('@@'):
                if sec is not None:
                    sections.append((sec, '\n'.join(buf)))
                sec = line[1:].strip()
                buf = []
            else:
                buf.append(line)
        if sec is not None:
            sections.append((sec, '\n'.join(buf)))
        for head, body in sections:
            words = head.split()
            kind = words[0]
            pos = [w for w in words[1:] if '=' not in w or w.startswith('(')]
            attrs = {}
            for w in words[1:]:
                if '=' in w and not w.startswith('('):
                    k, _, v = w.partition('=')
                    attrs[k] = v
            if kind == 'unit':
                self.name = pos[0]
                self.source = attrs.get('source')
                self.driver = attrs.get('driver')
                if 'configs' in attrs:
                    self.configs = attrs['configs'].split(',')
                if 'thorough_configs' in attrs:
                    self.thorough_configs = attrs['thorough_configs'].split(',')
                if 'cxxdefs' in attrs:
                    self.cxxdefs = [x for x in attrs['cxxdefs'].split(';') if x]
            elif kind == 'roots':
                self.roots += [l.strip() for l in body.split('\n') if l.strip()]
            elif kind == 'abstract':
                self.abstract += pos + [l.strip() for l in body.split('\n') if l.strip()]
            elif kind == 'prelude':
                self.prelude += body + '\n'
            elif kind == 'contract':
                self.contracts.setdefault(pos[0], []).append((attrs.get('when'), body.strip()))
            elif kind == 'loop':
                self.loops[(pos[0], int(pos[1]))] = body.strip()
            elif kind == 'group':
                if pos[0] in self.groups:
                    raise SpecError('duplicate group ' + pos[0])
                self.groups[pos[0]] = Group(pos[0], attrs, body, self)
            elif kind == 'replay':
                for gn in pos[0].split(','):          # one driver may serve several groups
                    if gn in self.groups:
                        self.groups[gn].replay = body
            elif kind == 'end':
                pass
            else:
                raise SpecError('%s: unknown section @%s' % (self.path, kind))
        if not self.name:
            raise SpecError(self.path + ': no @unit')
        for gname in [k for k, g in self.groups.items() if g.attrs.get('only') not in (None, self.name)]:
            del self.groups[gname]

    def contract_for(self, cname, cfg):
        # the LAST matching definition wins: a unit may override a contract that came in through a shared include
        for when, text in reversed(self.contracts.get(cname, [])):
            if when is None or cfg in when.split(','):
                return text
        return None


def expand_includes(text, dirpath, depth=0):
    def inc(m):
        return expand_includes(open(os.path.join(dirpath, m.group(1))).read(), dirpath, depth + 1)
    if depth > 5:
        raise SpecError('include depth')
    return re.sub(r'^@include\s+(\S+)\s*$', inc, text, flags=re.M)


def load_all(dirpath):
    units = []
    for f in sorted(os.listdir(dirpath)):
        if f.endswith('.spec'):
            p = os.path.join(dirpath, f)
            text = expand_includes(open(p).read(), dirpath)
            m = re.search(r'^@params\s+(.*)$', text, re.M)
            if not m:
                units.append(Unit(p, text))
                continue
            # @params A=x,y B=u,v : one unit per combination, $A$ / $B$ substituted textually
            text = text[:m.start()] + text[m.end():]
            import itertools
            keys, vals = [], []
            for w in m.group(1).split():
                k, _, v = w.partition('=')
                keys.append(k)
                vals.append(v.split(','))
            for combo in itertools.product(*vals):
                t = text
                for k, v in zip(keys, combo):
                    t = t.replace('$%s$' % k, v)
                units.append(Unit(p, t))
    return units
