"""Index over clang's JSON AST of one translation unit (current /repo tree)."""
import json, re, os

FUNC_KINDS = ('FunctionDecl', 'CXXMethodDecl', 'CXXConstructorDecl', 'CXXDestructorDecl', 'CXXConversionDecl')
REC_KINDS = ('CXXRecordDecl', 'ClassTemplateSpecializationDecl')
SKIP_NS = ('foonathan', 'memory', 'detail', 'literals')


class Abort(Exception):
    """extraction break: construct outside the supported subset, ambiguous or missing entity"""


def sanitize(s):
    s = s.replace('(anonymous namespace)::', '')
    s = re.sub(r'\b(foonathan::memory::detail::|foonathan::memory::|foonathan::|std::|verif::)', '', s)
    s = re.sub(r'\b(const|struct|class|enum|volatile)\b', '', s)
    s = s.replace('&&', ' rr ').replace('&', ' r ').replace('*', ' p ')
    s = re.sub(r'[^A-Za-z0-9]+', '_', s).strip('_')
    return s


OPS = {'()': 'op_call', '=': 'op_assign', '==': 'op_eq', '!=': 'op_ne', '<': 'op_lt', '>': 'op_gt', '<=': 'op_le',
       '>=': 'op_ge', '*': 'op_star', '->': 'op_arrow', '[]': 'op_index', '++': 'op_inc', '--': 'op_dec',
       '+': 'op_plus', '-': 'op_minus', '+=': 'op_pluseq', '-=': 'op_minuseq', '!': 'op_not', '&': 'op_addr',
       ' new': 'op_new', ' delete': 'op_delete', '|': 'op_or', '^': 'op_xor', '~': 'op_compl'}


class TU:
    def __init__(self, root):
        self.root = root
        self.byid = {}
        self.parent = {}
        self.defn = {}
        self.first = {}      # any decl id in a redeclaration chain -> id of first decl
        self.file_of = {}
        self._files(root)
        self._index(root, None)
        self._link()
        self._names = {}
        self._overloads = None

    @classmethod
    def load(cls, path):
        with open(path) as f:
            return cls(json.load(f))

    def _index(self, n, parent):
        stack = [(n, parent)]
        byid, par = self.byid, self.parent
        while stack:
            n, parent = stack.pop()
            i = n.get('id')
            if i is not None:
                old = byid.get(i)
                if old is None or ('inner' in n and 'inner' not in old):
                    byid[i] = n
                    if parent is not None:
                        par[i] = parent
                elif parent is not None and i not in par:
                    par[i] = parent
            for c in n.get('inner', ()):
                stack.append((c, n))

    def _files(self, root):
        """clang prints 'file'/'line' only when they change: replay the printer's state in document order"""
        cur = [None, None]

        def see(loc):
            if not loc:
                return
            for sub in ('spellingLoc', 'expansionLoc'):
                if sub in loc:
                    see(loc[sub])
            if 'file' in loc:
                cur[0] = loc['file']
            if 'line' in loc:
                cur[1] = loc['line']
        stack = [root]
        while stack:
            n = stack.pop()
            if 'loc' in n:
                see(n['loc'])
                if n.get('kind') in FUNC_KINDS or n.get('kind') in REC_KINDS:
                    self.file_of[n['id']] = (cur[0], cur[1])
            r = n.get('range')
            if r:
                see(r.get('begin'))
                see(r.get('end'))
            inner = n.get('inner')
            if inner:
                stack.extend(reversed(inner))

    @staticmethod
    def has_body(n):
        return any(c.get('kind') in ('CompoundStmt', 'CXXTryStmt') for c in n.get('inner', ()))

    def _link(self):
        for nid, n in self.byid.items():
            if n.get('kind') in FUNC_KINDS:
                p = n
                seen = 0
                while p.get('previousDecl') and p['previousDecl'] in self.byid and seen < 50:
                    p = self.byid[p['previousDecl']]
                    seen += 1
                self.first[nid] = p['id']
        bodies = {}
        for nid, n in self.byid.items():
            if n.get('kind') in FUNC_KINDS and self.has_body(n):
                bodies[self.first[nid]] = n
        for nid, f in self.first.items():
            if f in bodies:
                self.defn[nid] = bodies[f]

    # ------------------------------------------------------------------ structure
    def lexical_parent(self, n):
        return self.parent.get(n.get('id'))

    def semantic_parent(self, n):
        f = self.byid.get(self.first.get(n.get('id'), n.get('id')), n)
        pid = f.get('parentDeclContextId')
        if pid and pid in self.byid:
            return self.byid[pid]
        pid = n.get('parentDeclContextId')
        if pid and pid in self.byid:
            return self.byid[pid]
        p = self.parent.get(f.get('id'))
        while p is not None and p.get('kind') in ('FunctionTemplateDecl', 'ClassTemplateDecl', 'LinkageSpecDecl',
                                                   'VarTemplateDecl', 'TypeAliasTemplateDecl', 'FriendDecl'):
            p = self.parent.get(p.get('id'))
        return p

    def is_template_pattern(self, n):
        """True if n (a decl) is, or lies inside, an uninstantiated template"""
        child = n
        p = self.parent.get(n.get('id'))
        while p is not None:
            k = p.get('kind')
            if k == 'FunctionTemplateDecl':
                if not any(c.get('kind') == 'TemplateArgument' for c in child.get('inner', ())):
                    return True
            elif k in ('ClassTemplateDecl', 'VarTemplateDecl'):
                if child.get('kind') not in ('ClassTemplateSpecializationDecl', 'VarTemplateSpecializationDecl'):
                    return True
            elif k in ('ClassTemplatePartialSpecializationDecl', 'TypeAliasTemplateDecl',
                       'VarTemplatePartialSpecializationDecl'):
                return True
            child = p
            p = self.parent.get(p.get('id')) if p.get('id') else None
        if n.get('kind') == 'ClassTemplatePartialSpecializationDecl':
            return True
        # out-of-line definitions of members of class templates
        pid = n.get('parentDeclContextId')
        if pid and pid in self.byid and self.byid[pid] is not n:
            q = self.byid[pid]
            if q.get('kind') in REC_KINDS + ('ClassTemplatePartialSpecializationDecl',):
                if q.get('kind') == 'ClassTemplatePartialSpecializationDecl':
                    return True
                return self.is_template_pattern(q)
        return False

    def class_of(self, fn):
        p = self.semantic_parent(fn)
        if p is not None and p.get('kind') in REC_KINDS:
            return p
        return None

    # ------------------------------------------------------------------ names
    def targs(self, n):
        out = []
        for c in n.get('inner', ()):
            if c.get('kind') == 'TemplateArgument':
                out.append(self._targ(c))
        return out

    def lambda_by_loc(self, q):
        m = re.match(r'^\(lambda at (.*):(\d+):(\d+)\)$', q.strip())
        if not m:
            return None
        c = self.lambdas_at((os.path.normpath(m.group(1)), int(m.group(2)), int(m.group(3))))
        return self.lambda_canon(c[0]) if c else None

    def lambda_key(self, rec):
        f, l = self.file_of.get(rec['id'], (None, None))
        return (os.path.normpath(f) if f else None, l, rec.get('loc', {}).get('col'))

    def lambdas_at(self, key):
        if not hasattr(self, '_lambda_index'):
            self._lambda_index = {}
            for nid, n in self.byid.items():
                if n.get('kind') == 'CXXRecordDecl' and n.get('definitionData', {}).get('isLambda') and nid in self.file_of:
                    self._lambda_index.setdefault(self.lambda_key(n), []).append(n)
        c = self._lambda_index.get(key, [])
        return [x for x in c if not self.is_template_pattern(x)] or c

    @staticmethod
    def shape(n):
        parts = [n.get('kind', ''), n.get('opcode', ''), str(n.get('value', '')), n.get('name', ''), n.get('castKind', '')]
        r = n.get('referencedDecl')
        if r:
            parts.append(r.get('name', ''))
        return '(' + ','.join(parts) + ''.join(TU.shape(c) for c in n.get('inner', ())) + ')'

    def lambda_canon(self, rec):
        """the same lambda expression instantiated in several template instantiations: one canonical closure
        record, provided all instantiated bodies have the same shape (else extraction break)"""
        if not hasattr(self, '_lambda_canon'):
            self._lambda_canon = {}
        if rec['id'] in self._lambda_canon:
            return self._lambda_canon[rec['id']]
        group = self.lambdas_at(self.lambda_key(rec))
        if self.is_template_pattern(rec) or len(group) <= 1 or rec['id'] not in [g['id'] for g in group]:
            self._lambda_canon[rec['id']] = rec
            return rec
        shapes = set(self.shape(g) for g in group)
        if len(shapes) != 1:
            raise Abort('lambda at %s instantiated with different bodies' % (self.lambda_key(rec),))
        canon = sorted(group, key=lambda g: int(g['id'], 16))[0]
        for g in group:
            self._lambda_canon[g['id']] = canon
        return canon

    def lambda_name(self, rec):
        rec = self.lambda_canon(rec)
        p = self.parent.get(rec['id'])
        fn = None
        while p is not None:
            if p.get('kind') in FUNC_KINDS:
                fn = p
                break
            p = self.parent.get(p.get('id')) if p.get('id') else None
        if fn is None:
            return 'lambda_global_%s' % rec.get('loc', {}).get('col')
        found = []

        def walk(n):
            if n.get('kind') == 'LambdaExpr':
                for c in n.get('inner', ()):
                    if c.get('kind') == 'CXXRecordDecl':
                        found.append(c['id'])
            for c in n.get('inner', ()):
                walk(c)
        walk(fn)
        k = found.index(rec['id']) if rec['id'] in found else len(found)
        return 'lambda%d_in_%s' % (k, self.fn_base(fn))

    def _targ(self, c):
        if 'type' in c:
            q = c['type'].get('qualType', '')
            if q.startswith('(lambda at '):
                r = self.lambda_by_loc(q)
                if r is not None:
                    return self.lambda_name(r)
            return sanitize(q)
        if 'value' in c:
            return '1' if c['value'] == -1 else str(c['value'])
        if c.get('isPack') or 'inner' in c:
            return '_'.join(self._targ(x) if x.get('kind') == 'TemplateArgument' else self._const(x)
                            for x in c.get('inner', ()))
        if 'decl' in c:
            return sanitize(c['decl'].get('name', 'decl'))
        return 'arg'

    def _const(self, x):
        if 'value' in x:
            return str(x['value'])
        for c in x.get('inner', ()):
            v = self._const(c)
            if v:
                return v
        return ''

    def scope_name(self, n):
        """C-safe qualified name of a namespace/record decl chain (without skipped namespaces)"""
        key = n.get('id')
        if key in self._names:
            return self._names[key]
        parts = []
        k = n.get('kind')
        if k == 'NamespaceDecl':
            nm = n.get('name')
            if nm and nm not in SKIP_NS:
                parts.append(nm)
        elif k in REC_KINDS:
            nm = n.get('name')
            if not nm:
                if n.get('definitionData', {}).get('isLambda'):
                    self._names[key] = self.lambda_name(n)
                    return self._names[key]
                else:
                    nm = 'anon_%s' % n['id'][-5:]
            ta = self.targs(n) if k == 'ClassTemplateSpecializationDecl' else []
            parts.append('_'.join([nm] + [a for a in ta if a]))
        elif k in FUNC_KINDS:
            parts.append(sanitize(n.get('name', 'fn')))
        p = self.semantic_parent(n)
        pre = self.scope_name(p) if p is not None and p.get('kind') in ('NamespaceDecl',) + REC_KINDS + FUNC_KINDS else ''
        s = '__'.join(x for x in [pre] + parts if x)
        self._names[key] = s
        return s

    def fn_base(self, fn):
        nm = fn.get('name', '')
        k = fn['kind']
        if k == 'CXXConstructorDecl':
            b = 'ctor'
        elif k == 'CXXDestructorDecl':
            b = 'dtor'
        elif k == 'CXXConversionDecl':
            b = 'conv_' + sanitize(nm[len('operator'):])
        elif nm.startswith('operator') and not (nm[8:9].isalnum() or nm[8:9] == '_'):
            b = OPS.get(nm[8:], 'op_' + sanitize(nm[8:]))
        else:
            b = nm
        ta = self.targs(fn)
        if ta:
            b = b + '_' + '_'.join(a for a in ta if a)
        p = self.semantic_parent(fn)
        pre = self.scope_name(p) if p is not None and p.get('kind') in ('NamespaceDecl',) + REC_KINDS + FUNC_KINDS else ''
        return (pre + '__' if pre else '') + b

    def is_clinkage(self, fn):
        m = fn.get('mangledName')
        if m is None:
            # builtins / stubs
            return fn.get('kind') == 'FunctionDecl' and self.class_of(fn) is None and \
                (self.semantic_parent(fn) or {}).get('kind') in (None, 'TranslationUnitDecl', 'LinkageSpecDecl')
        return not m.startswith('_Z')

    def params(self, fn):
        return [c for c in fn.get('inner', ()) if c.get('kind') == 'ParmVarDecl']

    def overload_table(self):
        if self._overloads is None:
            t = {}
            for nid, n in self.byid.items():
                if n.get('kind') in FUNC_KINDS and self.first.get(nid) == nid and not n.get('isImplicit') \
                        and not self.is_template_pattern(n):
                    t.setdefault(self.fn_base(n), set()).add(nid)
            self._overloads = t
        return self._overloads

    def fn_cname(self, fn):
        f = self.byid.get(self.first.get(fn['id'], fn['id']), fn)
        if self.is_clinkage(f):
            return f['name']
        b = self.fn_base(f)
        ov = self.overload_table().get(b, ())
        if len(ov) > 1 or ((f.get('isImplicit') or f.get('explicitlyDefaulted')) and len(ov) >= 1 and f['id'] not in ov) \
                or self.implicit_siblings(f) > 1:
            def psig(o):
                return '_'.join(sanitize(p['type']['qualType']) for p in self.params(o)) or 'void'
            def is_const(o):
                return o['kind'] == 'CXXMethodDecl' and bool(re.search(r'\) const\b', o['type']['qualType']))
            sig = psig(f)
            if is_const(f) and any(o != f['id'] and psig(self.byid[o]) == sig and not is_const(self.byid[o]) for o in ov):
                sig += '_const'
            b = b + '__' + sig
        return b

    def implicit_siblings(self, f):
        """number of implicitly defined constructors WITH a synthesised body in f's class (they are not in the overload table;
        two of them -- default and move -- would otherwise get the same C name)"""
        if f.get('kind') != 'CXXConstructorDecl' or not f.get('isImplicit'):
            return 0
        cache = self.__dict__.setdefault('_impl_sib', {})
        rec = self.class_of(f)
        if rec is None:
            return 0
        k = rec.get('id')
        if k not in cache:
            n = 0
            for c in rec.get('inner', ()):
                if c.get('kind') == 'CXXConstructorDecl' and c.get('isImplicit') and self.has_body(c):
                    n += 1
            cache[k] = n
        return cache[k]

    def find_functions(self, selector):
        """selector: qualified name suffix (C++ spelling, '::'), optionally '@' + signature substring.
        Matches on the C name as well."""
        name, _, sig = selector.partition('@')
        res = {}
        simple = name.split('::')[-1]
        for nid, n in self.defn.items():
            d = n
            if d['id'] in res:
                continue
            if self.is_template_pattern(d):
                continue
            cn = self.fn_cname(d)
            if cn == name:
                res[d['id']] = d
                continue
            if '::' not in name and '__' in name:
                continue
            if d.get('name') != simple and not (simple in ('ctor', 'dtor')):
                continue
            qual = self.cxx_qualname(d)
            if not (qual == name or qual.endswith('::' + name)):
                continue
            if sig and sig not in d['type']['qualType']:
                continue
            res[d['id']] = d
        return list(res.values())

    def cxx_qualname(self, n):
        parts = [n.get('name', '')]
        if n['kind'] == 'CXXConstructorDecl':
            parts = ['ctor']
        elif n['kind'] == 'CXXDestructorDecl':
            parts = ['dtor']
        p = self.semantic_parent(n)
        while p is not None and p.get('kind') in ('NamespaceDecl',) + REC_KINDS:
            nm = p.get('name')
            if nm:
                parts.append(nm)
            p = self.semantic_parent(p)
        return '::'.join(reversed(parts))
